"""C06 -- residue and chain labels identify residues but never influence the
numbers.  The predicates through which labels can act are each checked against
"same (chain, residue number, insertion code)"."""
from symx import And, Or, Not, Implies, eq, le, ge, lt, ite, SStr, SInt, SBool
from symx.runner import Obligation
from . import common as H

PROPERTY = 'C06'
META = {'assumptions': ['residue numbers in the PDB field range [-999, 9999]; chain in {A, B, _}; insertion code in {blank, A, B}']}

CH = 'AB_'
IC = ' AB'


def ident(ctx, tag, lo=-999, hi=9999):
    return (ctx.string(tag + '_chain', 1, CH), ctx.int(tag + '_num', lo, hi), ctx.string(tag + '_icode', 1, IC))


def same(a, b):
    return And(a[0] == b[0], a[1] == b[1], a[2] == b[2])


def only_icode_differs(env):
    """known-finding signature: two of the residues in the obligation share
    chain and residue number and differ in insertion code"""
    tags = sorted({n[:-len('_num')] for n in env if n.endswith('_num')})
    alts = []
    for i in range(len(tags)):
        for j in range(i + 1, len(tags)):
            a, b = tags[i], tags[j]
            try:
                alts.append(And(env[a + '_chain_0'] == env[b + '_chain_0'], env[a + '_num'] == env[b + '_num'],
                                env[a + '_icode_0'] != env[b + '_icode_0']))
            except KeyError:
                pass
    return Or(*alts) if alts else None


def only_icode_differs_line(env):
    """the same signature for the obligation that builds atoms from PDB lines
    (inputs: two digit characters, chain, insertion code per line)"""
    try:
        return And(env['p_chain_0'] == env['q_chain_0'], env['p_d1_0'] == env['q_d1_0'], env['p_d2_0'] == env['q_d2_0'],
                   env['p_icode_0'] != env['q_icode_0'])
    except KeyError:
        return None


def mk_atom(name, res, idt, rec='atom', xyz=(0.0, 0.0, 0.0), element=None):
    """real Atom through the real constructor path for the label"""
    from propka.atom import Atom
    a = Atom()
    a.name, a.res_name, a.type = name, res, rec
    a.chain_id, a.res_num, a.icode = idt
    a.x, a.y, a.z = xyz
    a.element = element or name[0]
    # what Atom.__init__ does after set_properties:
    fmt = "{r.name:3s}{r.res_num:>4d}{r.chain_id:>2s}"
    from symx.sstr import sx_format
    a.residue_label = sx_format(fmt, r=a) if not isinstance(a.res_num, int) or not isinstance(a.chain_id, str) else fmt.format(r=a)
    return a


def o_residue_label_from_line(ctx):
    """Atom.__init__ on a real PDB line with symbolic residue-number digits,
    chain and insertion code: residue_label of two atoms of the same name is
    equal iff the residues are the same"""
    import propka.atom as A
    from symx.sstr import mk, as_els
    labels = []
    ids = []
    for t in ('p', 'q'):
        els = list(as_els(H.pdb_line(1, 'CA', 'GLY', 'A', 10, 1.0, 2.0, 3.0)))
        d1 = ctx.string(t + '_d1', 1, ' 19')
        d2 = ctx.string(t + '_d2', 1, '019')
        ch = ctx.string(t + '_chain', 1, 'AB')
        ic = ctx.string(t + '_icode', 1, IC)
        els[24], els[25], els[21], els[26] = as_els(d1)[0], as_els(d2)[0], as_els(ch)[0], as_els(ic)[0]
        a = A.Atom(line=mk(els))
        labels.append(a.residue_label)
        ids.append((a.chain_id, a.res_num, a.icode))
    ctx.claim('residue_label-equal-iff-same-residue', (labels[0] == labels[1]) == same(ids[0], ids[1]),
              detail='labels %r %r' % (labels[0], labels[1]))


def o_desolvation_exclusion(ctx):
    """radial_volume_desolvation: an atom is skipped iff it belongs to the
    group's own residue"""
    import propka.energy as E
    import propka.group as G
    p = H.params()
    g_id = ident(ctx, 'g')
    a_id = ident(ctx, 'a')
    conf = H.conformation()
    ga = mk_atom('CG', 'ASP', g_id)
    conf.add_atom(ga)
    grp = G.COOGroup(ga)
    grp.parameters = p
    grp.charge = -1
    other = mk_atom('CB', 'LEU', a_id, xyz=(3.0, 0.0, 0.0))
    conf.add_atom(other)
    E.radial_volume_desolvation(p, grp)
    counted = grp.num_volume == 1
    ctx.claim('own-atom-never-counted', grp.num_volume in (0, 1))
    ctx.claim('skipped-iff-same-residue', Not(same(g_id, a_id)) if counted else same(g_id, a_id),
              detail='counted=%r' % counted)


def _group(cls, res, an, idt, rec='atom', p=None):
    import propka.group as G
    a = mk_atom(an, res, idt, rec=rec)
    g = getattr(G, cls)(a)
    g.parameters = p or H.params()
    return g


def o_group_equality(ctx):
    """Group.__eq__ / Iterative.__eq__ between two groups of the same kind:
    equal iff same residue"""
    import propka.iterative as I
    kind = ctx.choice('kind', [('COOGroup', 'ASP', 'CG', 'atom'), ('HISGroup', 'HIS', 'CG', 'atom'), ('OCOGroup', 'LIG', 'C1', 'hetatm')])
    i1, i2 = ident(ctx, 'p'), ident(ctx, 'q')
    g1 = _group(kind[0], kind[1], kind[2], i1, rec=kind[3])
    g2 = _group(kind[0], kind[1], kind[2], i2, rec=kind[3])
    e = (g1 == g2)
    ctx.claim('group-eq-iff-same-residue', e == same(i1, i2) if not isinstance(e, bool) else (same(i1, i2) if e else Not(same(i1, i2))),
              detail='labels %r / %r' % (g1.label, g2.label))
    g1.model_pka = g2.model_pka = 4.0
    it1 = I.Iterative(g1)
    e2 = (it1 == g2)
    ctx.claim('iterative-eq-iff-same-residue', (same(i1, i2) if e2 else Not(same(i1, i2))) if isinstance(e2, bool) else (e2 == same(i1, i2)))


def o_pair_loops(ctx):
    """the triangular loops that `break` at the first equal group visit every
    unordered pair of distinct groups exactly once (3 groups, distinct residues)"""
    import propka.determinants as D
    import propka.coupled_groups as CG
    p = H.params()
    ids = [ident(ctx, t) for t in ('p', 'q', 'r')]
    for i in range(3):
        for j in range(i + 1, 3):
            ctx.assume(Not(same(ids[i], ids[j])))
    gs = [_group('COOGroup', 'ASP', 'CG', ids[0], p=p), _group('COOGroup', 'ASP', 'CG', ids[1], p=p), _group('COOGroup', 'ASP', 'CG', ids[2], p=p)]
    for k, g in enumerate(gs):
        g.titratable = True
        g.charge = -1
        H.set_xyz(g, 3.0 * k, 0.0, 0.0)
    visited = []
    v = H.version(p)
    old = D.add_determinants
    D.add_determinants = lambda a, b, dist, ver: visited.append((a, b))
    # every COO-COO pair is 'I' (iterative) in the shipped matrix: record those too
    import propka.iterative as I
    old_it = I.add_to_determinant_list
    I.add_to_determinant_list = lambda a, b, dist, lst, version=None: visited.append((a, b))
    old_it_add = I.add_determinants
    I.add_determinants = lambda lst, ver: None
    try:
        D.set_determinants(gs, v)
    finally:
        D.add_determinants, I.add_to_determinant_list, I.add_determinants = old, old_it, old_it_add
    pairs = sorted(tuple(sorted((gs.index(a), gs.index(b)))) for a, b in visited)
    ctx.claim('set_determinants-visits-each-pair-once', pairs == [(0, 1), (0, 2), (1, 2)], detail=repr(pairs))
    nccg = CG.NonCovalentlyCoupledGroups()
    seen = []
    nccg.is_coupled_protonation_state_probability = lambda a, b, e, return_on_fail=True: (seen.append((a, b)) or {'coupling_factor': -1.0})
    conf = H.conformation(p=p)
    conf.groups = gs
    nccg.identify_non_covalently_coupled_groups(conf, verbose=False)
    pairs2 = sorted(tuple(sorted((gs.index(a), gs.index(b)))) for a, b in seen)
    ctx.claim('coupling-search-visits-each-pair-once', pairs2 == [(0, 1), (0, 2), (1, 2)], detail=repr(pairs2))


def o_pair_argument_order(ctx):
    """the pair handlers receive the two groups in an order that follows from the order of the group list alone, never from
    the residue identities: the (ordered) arguments handed to the asymmetric hydrogen-bond model and to the electrostatic
    model are the same for every relabelling of the two residues (HIS/AMD: the only pair whose H-bond model is asymmetric)"""
    import propka.determinants as D
    p = H.params()
    ids = [ident(ctx, t) for t in ('p', 'q')]
    ctx.assume(Not(same(ids[0], ids[1])))
    kinds = ctx.choice('kinds', [('HISGroup', 'HIS', 'NE2', 'AMDGroup', 'ASN', 'CG'), ('AMDGroup', 'GLN', 'CD', 'HISGroup', 'HIS', 'ND1'), ('COOGroup', 'ASP', 'CG', 'LYSGroup', 'LYS', 'NZ')])

    def world(idents):
        gs = [_group(kinds[0], kinds[1], kinds[2], idents[0], p=p), _group(kinds[3], kinds[4], kinds[5], idents[1], p=p)]
        for k, g in enumerate(gs):
            g.titratable = kinds[3 * k] != 'AMDGroup'
            g.charge = {'HISGroup': 1, 'LYSGroup': 1, 'COOGroup': -1, 'AMDGroup': 0}[kinds[3 * k]]
            H.set_xyz(g, 3.0 * k, 0.0, 0.0)
        calls = []
        v = H.version(p)
        v.hydrogen_bond_interaction = lambda a, b: calls.append(('hb', gs.index(a), gs.index(b))) or 0.0
        v.electrostatic_interaction = lambda a, b, d: calls.append(('el', gs.index(a), gs.index(b))) or None
        D.set_determinants(gs, v)
        return calls
    got = world(ids)
    ref = world([('A', 10, ' '), ('A', 20, ' ')])
    ref2 = world([('B', 20, ' '), ('A', 10, ' ')])
    ctx.claim('reference-numberings-agree', ref == ref2)
    ctx.claim('argument-order-independent-of-residue-identity', got == ref, detail='%r vs %r' % (got, ref))


def o_hbond_of_linked_residues(ctx):
    """the real hydrogen_bond_interaction on a COO and a LYS group of two DIFFERENT residues that are joined through a chain of
    k covalent bonds (isopeptide / cross-link / covalently attached hetero residue): whether the pair is excluded as 'within 4
    bonds' follows from the bond graph alone, for every relabelling of the two residues (also one that gives them the same
    number in different chains, or numbers that differ in the insertion code only)"""
    import propka.energy as E
    p = H.params()
    ids = [ident(ctx, t) for t in ('p', 'q')]
    ctx.assume(Not(same(ids[0], ids[1])))
    k = ctx.choice('bonds_between_the_groups', [1, 2, 4, 5])
    hetero = ctx.choice('second_residue_is_hetero', [False, True])

    def world(idents):
        g1 = _group('COOGroup', 'ASP', 'CG', idents[0], p=p)
        g2 = _group('LYSGroup', 'LYS', 'NZ', idents[1], rec='hetatm' if hetero else 'atom', p=p)
        g1.charge, g2.charge = -1, 1
        H.set_xyz(g1.atom, 0.0, 0.0, 0.0)
        H.set_xyz(g2.atom, 3.0, 0.0, 0.0)
        chain = [g1.atom] + [mk_atom('C%d' % i, 'LYS', idents[1], rec='hetatm' if hetero else 'atom') for i in range(k - 1)] + [g2.atom]
        for a, b in zip(chain, chain[1:]):
            a.bonded_atoms.append(b)
            b.bonded_atoms.append(a)
        for g in (g1, g2):
            g.num_volume = 100
            g.set_interaction_atoms([g.atom], [g.atom])
        return E.hydrogen_bond_interaction(g1, g2, H.version(p))
    got = world(ids)
    ref = world([('A', 10, ' '), ('A', 20, ' ')])
    ctx.claim('reference-as-the-bond-graph-says', (ref is None) == (k <= 4), detail='%d bonds: %r' % (k, ref))
    ctx.claim('hydrogen-bond-independent-of-residue-identity', (got is None) == (ref is None) and (got is None or bool(eq(got, ref))),
              detail='%r vs %r' % (got, ref))


def o_find_group(ctx):
    """ConformationContainer.find_group / top_up_from_atoms identify an
    atom/group across conformations by residue: match iff same residue"""
    p = H.params()
    # residue numbers from a small range: top_up_from_atoms hashes them
    # (dict keys), which concretises the symbolic number by forks
    i1, i2 = ident(ctx, 'p', -1, 2), ident(ctx, 'q', -1, 2)
    conf = H.conformation(p=p)
    g1 = _group('COOGroup', 'ASP', 'CG', i1, p=p)
    conf.groups = [g1]
    conf.add_atom(g1.atom)
    probe = _group('COOGroup', 'ASP', 'CG', i2, p=p)
    found = conf.find_group(probe)
    ctx.claim('find_group-iff-same-residue', same(i1, i2) if found else Not(same(i1, i2)))
    # top-up: an atom of the same name is missing iff the residue differs
    other = mk_atom('CG', 'ASP', i2)
    n0 = len(conf.atoms)
    conf.top_up_from_atoms([other])
    added = len(conf.atoms) == n0 + 1
    ctx.claim('top-up-adds-iff-different-residue', Not(same(i1, i2)) if added else same(i1, i2))
    # the residue-type guard: an atom of ANOTHER residue type is refused only when it sits at the
    # position (chain, number, insertion code) of a residue this conformation already has
    foreign = mk_atom('NZ', 'LYS', i2)
    conf2 = H.conformation('1B', p=p)
    conf2.add_atom(mk_atom('CG', 'ASP', i1))
    n1 = len(conf2.atoms)
    conf2.top_up_from_atoms([foreign])
    refused = len(conf2.atoms) == n1
    ctx.claim('other-residue-type-refused-iff-same-position', same(i1, i2) if refused else Not(same(i1, i2)),
              detail='refused=%r' % refused)


def o_resid(ctx):
    import propka.lib as L
    i1, i2 = ident(ctx, 'p'), ident(ctx, 'q')
    a, b = mk_atom('CA', 'GLY', i1), mk_atom('CA', 'GLY', i2)
    ra, rb = L.resid_from_atom(a), L.resid_from_atom(b)
    ctx.claim('resid-equal-iff-same-residue', (ra == rb) == same(i1, i2))


def o_label_never_in_arithmetic(ctx):
    """sort key: within one chain the order of residue numbers is kept, also
    for negative numbers; the key is not used for anything but ordering"""
    from propka.conformation_container import ConformationContainer as C
    c = ctx.string('chain', 1, CH)
    n1, n2 = ctx.int('n1', -999, 9999), ctx.int('n2', -999, 9999)
    a, b = mk_atom('CA', 'GLY', (c, n1, ' ')), mk_atom('CA', 'GLY', (c, n2, ' '))
    ka, kb = C.sort_atoms_key(a), C.sort_atoms_key(b)
    ctx.claim('order-preserved-within-chain', Implies(lt(n1, n2), lt(ka, kb)))
    ctx.claim('shift-invariant', eq(kb - ka, (n2 - n1) * 1000))


def mk_pipeline_relabelling(first, second, ter, with_altloc=False):
    """whole pipeline on two chains written one after the other (with or without a TER record between them): renaming
    the second chain and shifting its residue numbers by a constant -- in particular so that its numbers collide with
    those of the first chain -- changes labels only"""
    def body(ctx):
        from . import micro as M
        t1 = '\n'.join(l for l in M.text(first).split('\n') if l and not l.startswith('TER')) + '\n' + ('TER   \n' if ter else '')
        n1 = sorted({int(l[22:26]) for l in t1.split('\n') if l.startswith('ATOM')})
        t2 = M.text(second)
        if with_altloc:
            # one atom of the second chain in two alternate locations: a second conformation exists and is topped up
            cb = [l for l in t2.split('\n') if l.startswith('ATOM') and l[12:16].strip() == 'CB'][1]
            t2 = M.altloc(t2, int(cb[22:26]), 'CB')
        base_txt = t1 + M.renumber(t2, 500, 'B')
        start = ctx.choice('second_chain_starts_at', [n1[-1], n1[-1] + 1, n1[-1] - 1, n1[0], n1[0] - len(n1), 1, -5, -150, 3000])
        c1 = [l for l in t1.split('\n') if l.startswith('ATOM')][0][21]
        chain = ctx.choice('second_chain_id', sorted({'B', 'Z', 'a', '2', c1.lower()}))
        rel_txt = t1 + M.renumber(t2, start, chain)
        # ... also when only the first chain is selected with -c (chain identifiers are case sensitive: renaming the other chain
        # to the lower-case letter of the selected one must not pull it into the calculation)
        args = ['-c', c1] if ctx.choice('selection', ['none', 'first chain only']) == 'first chain only' else []
        base = M.run(base_txt, args=args)
        rel = M.run(rel_txt, args=args)

        def key(g):
            return (g.type, g.atom.name, round(g.atom.x, 3), round(g.atom.y, 3), round(g.atom.z, 3))
        # in every conformation the groups come in the order of the file, whatever the chains are called (the pair handlers
        # are order sensitive)
        ctx.claim('same-conformations', list(base.conformation_names) == list(rel.conformation_names))
        for cn in base.conformation_names:
            if cn in rel.conformations:
                ob = [(g.type, g.atom.name, round(g.atom.x, 3)) for g in base.conformations[cn].groups]
                orl = [(g.type, g.atom.name, round(g.atom.x, 3)) for g in rel.conformations[cn].groups]
                ctx.claim('group-order-follows-the-file', ob == orl, detail='%s: first difference at %r' % (cn, [i for i, (x, y) in enumerate(zip(ob, orl)) if x != y][:1]))
        gb = {key(g): g for g in base.conformations['1A'].groups}
        gr = {key(g): g for g in rel.conformations['1A'].groups}
        ctx.claim('same-groups-up-to-labels', sorted(gb) == sorted(gr), detail='only in one: %r' % (sorted(set(gb) ^ set(gr))[:4],))
        for k in gb:
            if k not in gr:
                continue
            a, b = gb[k], gr[k]
            ctx.claim('pka-unchanged', abs(a.pka_value - b.pka_value) < 1e-9, detail='%s -> %s: %r vs %r' % (a.label, b.label, a.pka_value, b.pka_value))
            ctx.claim('desolvation-unchanged', a.num_volume == b.num_volume and abs(a.energy_volume - b.energy_volume) < 1e-9)
            for kind in ('sidechain', 'backbone', 'coulomb'):
                va, vb = sorted(d.value for d in a.determinants[kind]), sorted(d.value for d in b.determinants[kind])
                ctx.claim('determinants-unchanged', len(va) == len(vb) and all(abs(x - y) < 1e-9 for x, y in zip(va, vb)), detail='%s %s: %r vs %r' % (a.label, kind, va, vb))
    return body


def obligations(tier):
    kf = ('known finding F5: insertion code ignored (label / residue_label / same-residue test use chain + number only); '
          'reported as KNOWN-FINDING, any other disagreement is a violation')
    obs = [
        Obligation('O1-desolvation-same-residue-exclusion', o_desolvation_exclusion, code=['propka/energy.py:radial_volume_desolvation'],
                   bounds='group residue and one environment atom with symbolic (chain in {A,B,_}, number in [-999,9999], insertion code in {blank,A,B})',
                   claim_doc='atom skipped <=> same (chain, number, insertion code)', outside=kf),
        Obligation('O2-group-equality', o_group_equality, code=['propka/group.py:Group.__init__', 'propka/group.py:Group.__eq__', 'propka/iterative.py:Iterative.__eq__'],
                   bounds='two groups of one kind (COO / HIS / ligand OCO) with symbolic residue identities; labels built by the real format strings',
                   claim_doc='equal <=> same residue', outside=kf, max_paths=50000),
        Obligation('O2-pair-loops', o_pair_loops, code=['propka/determinants.py:set_determinants', 'propka/coupled_groups.py:NonCovalentlyCoupledGroups.identify_non_covalently_coupled_groups'],
                   bounds='3 groups with pairwise distinct symbolic residue identities', shims=['pair handlers replaced by recorders'],
                   claim_doc='every unordered pair visited exactly once', outside=kf, max_paths=50000, shards=8, wall_s=170),
        Obligation('O2-hydrogen-bond-of-covalently-linked-residues', o_hbond_of_linked_residues,
                   code=['propka/energy.py:hydrogen_bond_interaction', 'propka/atom.py:Atom.is_atom_within_bond_distance', 'propka/version.py:VersionA.get_hydrogen_bond_parameters'],
                   bounds='a COO and a LYS group (second residue ATOM or HETATM) 3 A apart, joined through 1, 2, 4 or 5 covalent bonds, both residue identities symbolic (chain, number in [-999,9999], insertion code), distinct',
                   claim_doc='excluded iff within 4 bonds, with the same value otherwise, for every relabelling', max_paths=400),
        Obligation('O2-pair-argument-order', o_pair_argument_order, code=['propka/determinants.py:set_determinants', 'propka/determinants.py:add_determinants', 'propka/determinants.py:add_sidechain_determinants',
                                                                                 'propka/determinants.py:add_coulomb_determinants'],
                   bounds='two groups (HIS+AMD in both list orders, COO+LYS) with symbolic residue identities (chain, number in [-999,9999], insertion code)', shims=['hydrogen_bond_interaction / electrostatic_interaction -> recorders of their ordered arguments'],
                   claim_doc='the ordered argument pairs are those of the reference numbering', max_paths=20000),
        Obligation('O3-residue-label', o_residue_label_from_line, code=['propka/atom.py:Atom.__init__', 'propka/atom.py:Atom.set_properties'],
                   bounds='two PDB lines with symbolic 2-digit residue number, chain, insertion code', claim_doc='residue_label equal <=> same residue', outside=kf),
        Obligation('O3-find-group-and-top-up', o_find_group, code=['propka/conformation_container.py:ConformationContainer.find_group',
                                                                  'propka/conformation_container.py:ConformationContainer.top_up_from_atoms'],
                   bounds='two residues with symbolic chain / insertion code and residue number in [-1,2]', claim_doc='matched <=> same residue', outside=kf, max_paths=50000),
        Obligation('O4-resid_from_atom', o_resid, code=['propka/lib.py:resid_from_atom'], bounds='two symbolic identities', claim_doc='equal <=> same residue', max_paths=50000),
        Obligation('O5-sort-key', o_label_never_in_arithmetic, code=['propka/conformation_container.py:ConformationContainer.sort_atoms_key'],
                   bounds='two residue numbers in [-999,9999] in one chain', claim_doc='order of numbers kept; key difference = 1000 * number difference'),
    ]
    BR = ('pair_CYS_CYS_bridge:41-43', 'pair_CYS_CYS_bridge:57-59', True)     # a disulfide between the two chains
    for first, second, ter in ([('pair_LYS_ASP', 'tri_HIS', True)] if tier == 'quick' else [('pair_LYS_ASP', 'tri_HIS', True), ('cterm_PHE', 'tri_ASN', False), ('pep8', 'tri_ARG', True)]):
        obs.append(Obligation('O6-pipeline-relabelling[%s+%s%s,alternate locations]' % (first, second, ',TER' if ter else ',no TER'), mk_pipeline_relabelling(first, second, ter, with_altloc=True),
                              code=['propka/input.py:get_atom_lines_from_pdb', 'propka/molecular_container.py:MolecularContainer.top_up_conformations', 'propka/conformation_container.py:ConformationContainer.sort_atoms_key', 'propka/run.py:single (whole pipeline)'],
                              bounds='as O6 with one atom of the second chain in two alternate locations (two conformations, topped up); 36 concrete relabellings incl. chain identifiers that sort before the first chain', kind='table-check',
                              claim_doc='same conformations; groups in file order in every conformation; same groups up to labels; pKa, desolvation, determinants unchanged', max_paths=400, shards=4))
    for first, second, ter in ([('cterm_PHE', 'tri_ASP', False), ('pair_LYS_ASP', 'tri_HIS', True), BR] if tier == 'quick' else
                               [BR, ('cterm_PHE', 'tri_ASP', False), ('cterm_PHE', 'tri_ASP', True), ('pair_LYS_ASP', 'tri_HIS', True), ('pair_LYS_ASP', 'tri_HIS', False), ('cterm_PHE', 'pair_ASP_ARG', False), ('pep8', 'tri_LYS', False)]):
        obs.append(Obligation('O6-pipeline-relabelling[%s+%s%s]' % (first, second, ',TER' if ter else ',no TER'), mk_pipeline_relabelling(first, second, ter),
                              code=['propka/input.py:get_atom_lines_from_pdb', 'propka/conformation_container.py:ConformationContainer.sort_atoms_key', 'propka/run.py:single (whole pipeline)'],
                              bounds='%s followed %s by %s as a second chain; second chain renamed (4-5 identifiers incl. the lower-case letter of the first chain), with and without -c <first chain>, and renumbered from 9 starting numbers incl. collisions with the first chain, negative and >999 (36 concrete files)' % (first, 'after a TER record' if ter else 'directly (no TER)', second),
                              kind='table-check', claim_doc='same groups up to labels; pKa, desolvation, determinants unchanged', max_paths=400, shards=4))
    return obs


MANIFEST_ENTRY = {
    'level_note': ('Each predicate through which a label can act (same-residue exclusion, group/iterative equality, the two triangular pair loops, '
                   'residue_label, find_group, top-up, precheck grouping, sort key) is run with symbolic (chain, number, insertion code) for the residues '
                   'involved; labels are built by the real format strings over symbolic integers/characters. A renaming that keeps residue identities '
                   'distinct leaves every predicate\'s truth value unchanged, hence the numbers; that last step is argued, not solved. '
                   'Known finding (recorded, not repaired because the shipped 3SGB reference depends on it): insertion codes are ignored.'
                   " O6: whole pipeline under concrete relabellings of a second chain (collisions with the first chain's numbers, negative, > 999, other identifiers), with/without TER, across an inter-chain disulfide."),
}
