#!/usr/bin/env python3
import json, glob, sys
import jsonschema
jsonschema.validate(json.load(open('/verif/MANIFEST.json')), json.load(open('/root/.vp/MANIFEST.schema.json')))
s = json.load(open('/root/.vp/EVIDENCE.schema.json'))
for f in sorted(glob.glob('/verif/evidence/*.json')):
    jsonschema.validate(json.load(open(f)), s)
    print('ok', f)
print('manifest ok')
