#!/usr/bin/env python3
"""regenerate /verif/MANIFEST.json from the harness modules that exist.
A property is claimed iff harness/<id>.py exists and defines MANIFEST_ENTRY
(or is listed in CLAIMS below); everything else goes to not_applicable."""
import importlib
import json
import os
import sys

VERIF = os.path.dirname(os.path.dirname(os.path.abspath(__file__)))
sys.path.insert(0, VERIF)

TECH = ('bounded symbolic execution of the real Python code (AST-instrumented import of /repo, shadow values over z3 terms); '
        'each end-of-path claim decided by z3 (unsat of path-condition && !claim); counterexamples replayed natively')

LEVEL_TEXT = ('Bounded symbolic checking of the real code: inside the bounds stated per obligation every feasible path is '
              'explored through solver-decided forks and every claim is discharged by the SMT solver for all values, or a model '
              'is returned, replayed against the uninstrumented code and reported. Neither sampling nor an unbounded proof.')

PENDING = {}


def main():
    props = [json.loads(l) for l in open(os.path.join(VERIF, 'properties.jsonl'))]
    checks, na = [], []
    for p in props:
        pid = p['id']
        path = os.path.join(VERIF, 'harness', pid.lower() + '.py')
        entry = None
        if os.path.exists(path):
            mod = importlib.import_module('harness.' + pid.lower())
            entry = getattr(mod, 'MANIFEST_ENTRY', None)
        if entry is None:
            na.append({'property_id': pid, 'reason': PENDING.get(pid, 'check not built yet in this round (planned in DESIGN.md section 5); not claimed until it exists')})
            continue
        c = {
            'property_id': pid,
            'quick_cmd': './check %s --tier quick' % pid,
            'thorough_cmd': './check %s --tier thorough' % pid,
            'evidence_file': 'evidence/%s.json' % pid,
            'replay_cmd_template': './check --replay {path}',
            'engine': 'symx',
            'level_claimed': {'category': 'other', 'text': LEVEL_TEXT + ' ' + entry.get('level_text', ''),
                              'design_ref': entry.get('design_ref', 'DESIGN.md section 5 ' + pid)},
            'level_note': entry['level_note'],
            'technique': entry.get('technique', TECH),
        }
        checks.append(c)
    extra_na = []
    for pid in []:
        pass
    man = {
        'version': 1,
        'setup_cmd': './setup.sh',
        'hooks': {'guard': 'PROPKA_VERIF', 'enable': 'none needed: the checks instrument /repo sources at import time (symx/instrument.py); no source hooks exist',
                  'baseline_off_cmd': 'cd /repo && /venv/bin/python -m pytest -ra -q -p no:cacheprovider --timeout=900 --continue-on-collection-errors',
                  'source_commits': [], 'add_only': True},
        'engines': [{'name': 'symx', 'path': 'symx/', 'serves_properties': [c['property_id'] for c in checks],
                     'kind_free_text': 'shadow symbolic executor for Python over z3 (decision-prefix DFS, AST-instrumented import of the repository)'}],
        'checks': checks,
        'not_applicable': na,
        'notes': 'Exit codes of ./check: 0 held on everything explored, 1 reproducing violation (VIOLATION line), 3 harness error. '
                 'PROPKA_REPO=<dir> points the checks at another working tree (used for seeded mutants).',
    }
    with open(os.path.join(VERIF, 'MANIFEST.json'), 'w') as fh:
        json.dump(man, fh, indent=1)
    print('claimed:', [c['property_id'] for c in checks])
    print('not applicable:', [n['property_id'] for n in na])


if __name__ == '__main__':
    main()
