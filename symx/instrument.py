"""symx.instrument -- AST-instrumented import of the repository's propka.

Every run re-reads /repo's *current* source files, rewrites the constructs
that CPython would evaluate in C on its own types (and that shadow values
therefore cannot intercept), compiles the result and installs it as the
``propka`` package of this process:

  x in y / x not in y          -> __sx__.contains(y, x[, negate])
  <expr>.format(...)           -> __sx__.format(<expr>, ...)
  f"...{v:spec}..."            -> __sx__.fstring([...])
  int/float/round/max/min/str/ord/chr/isinstance(...)  (call position only)
                               -> __sx__.<shim>(...)
  module global ``math``       -> __sx__.math   (falls through to math)

Nothing else is changed; on concrete data every shim delegates to the real
builtin, which is validated by running the repository's own unit-test inputs
through the instrumented modules (see harness/selfcheck.py).
"""
import ast
import hashlib
import importlib.abc
import importlib.util
import os
import sys
import types

from . import shims, sstr

REPO = os.environ.get('PROPKA_REPO', '/repo')

SKIP = {'propka._version', 'propka.__main__'}

CALL_SHIMS = set(shims.BUILTIN_SHIMS)


class SX:
    """namespace object injected as __sx__ into every instrumented module"""
    contains = staticmethod(shims.sx_contains)
    format = staticmethod(sstr.sx_format)
    fstring = staticmethod(sstr.sx_fstring)
    math = shims.SxMath()
    set_factory = None  # optional override of set() (C03)

    @staticmethod
    def set(*args):
        if SX.set_factory is not None:
            return SX.set_factory(*args)
        return set(*args)


for _n, _f in shims.BUILTIN_SHIMS.items():
    setattr(SX, _n, staticmethod(_f))


class Rewriter(ast.NodeTransformer):
    def __init__(self, rewrite_set=False):
        self.rewrite_set = rewrite_set

    def visit_Compare(self, node):
        self.generic_visit(node)
        if len(node.ops) == 1 and isinstance(node.ops[0], (ast.In, ast.NotIn)):
            neg = isinstance(node.ops[0], ast.NotIn)
            call = ast.Call(
                func=ast.Attribute(value=ast.Name(id='__sx__', ctx=ast.Load()), attr='contains', ctx=ast.Load()),
                args=[node.comparators[0], node.left, ast.Constant(value=neg)], keywords=[])
            return ast.copy_location(call, node)
        return node

    def visit_Call(self, node):
        self.generic_visit(node)
        f = node.func
        if isinstance(f, ast.Name) and f.id in CALL_SHIMS:
            node.func = ast.copy_location(
                ast.Attribute(value=ast.Name(id='__sx__', ctx=ast.Load()), attr=f.id, ctx=ast.Load()), f)
            return node
        if self.rewrite_set and isinstance(f, ast.Name) and f.id == 'set':
            node.func = ast.copy_location(
                ast.Attribute(value=ast.Name(id='__sx__', ctx=ast.Load()), attr='set', ctx=ast.Load()), f)
            return node
        if isinstance(f, ast.Attribute) and f.attr == 'format' and not (
                isinstance(f.value, ast.Name) and f.value.id in ('self',)):
            call = ast.Call(
                func=ast.Attribute(value=ast.Name(id='__sx__', ctx=ast.Load()), attr='format', ctx=ast.Load()),
                args=[f.value] + node.args, keywords=node.keywords)
            return ast.copy_location(call, node)
        return node

    def visit_JoinedStr(self, node):
        self.generic_visit(node)
        parts = []
        for v in node.values:
            if isinstance(v, ast.Constant):
                parts.append(ast.Tuple(elts=[ast.Constant(value='s'), v], ctx=ast.Load()))
            elif isinstance(v, ast.FormattedValue):
                spec = v.format_spec if v.format_spec is not None else ast.Constant(value='')
                parts.append(ast.Tuple(elts=[ast.Constant(value='v'), v.value,
                                             ast.Constant(value=v.conversion), spec], ctx=ast.Load()))
            else:
                parts.append(ast.Tuple(elts=[ast.Constant(value='v'), v, ast.Constant(value=-1),
                                             ast.Constant(value='')], ctx=ast.Load()))
        call = ast.Call(
            func=ast.Attribute(value=ast.Name(id='__sx__', ctx=ast.Load()), attr='fstring', ctx=ast.Load()),
            args=[ast.List(elts=parts, ctx=ast.Load())], keywords=[])
        return ast.copy_location(call, node)


SOURCE_HASHES = {}


def instrument_source(src, filename, modname):
    tree = ast.parse(src, filename=filename)
    tree = Rewriter(rewrite_set=(modname == 'propka.conformation_container')).visit(tree)
    ast.fix_missing_locations(tree)
    return compile(tree, filename, 'exec')


class Loader(importlib.abc.Loader):
    def __init__(self, path, is_pkg):
        self.path = path
        self.is_pkg = is_pkg

    def create_module(self, spec):
        return None

    def exec_module(self, module):
        with open(self.path, 'r', encoding='utf-8') as fh:
            src = fh.read()
        SOURCE_HASHES[module.__name__] = hashlib.sha256(src.encode()).hexdigest()[:16]
        module.__dict__['__sx__'] = SX
        code = instrument_source(src, self.path, module.__name__)
        exec(code, module.__dict__)
        if 'math' in module.__dict__ and isinstance(module.__dict__['math'], types.ModuleType):
            module.__dict__['math'] = SX.math
        import decimal
        if module.__dict__.get('Decimal') is decimal.Decimal:
            module.__dict__['Decimal'] = shims.sx_Decimal


class Finder(importlib.abc.MetaPathFinder):
    def find_spec(self, fullname, path, target=None):
        if fullname != 'propka' and not fullname.startswith('propka.'):
            return None
        if fullname in SKIP:
            return None
        parts = fullname.split('.')
        base = os.path.join(REPO, *parts)
        if os.path.isdir(base) and os.path.exists(os.path.join(base, '__init__.py')):
            p = os.path.join(base, '__init__.py')
            return importlib.util.spec_from_file_location(
                fullname, p, loader=Loader(p, True), submodule_search_locations=[base])
        p = base + '.py'
        if os.path.exists(p):
            return importlib.util.spec_from_file_location(fullname, p, loader=Loader(p, False))
        return None


_installed = False


def install():
    """install the instrumenting import hook (idempotent).  Must run before
    the first ``import propka`` in this process."""
    global _installed
    if _installed:
        return
    if any(m == 'propka' or m.startswith('propka.') for m in sys.modules):
        raise RuntimeError("propka already imported uninstrumented")
    sys.meta_path.insert(0, Finder())
    if REPO not in sys.path:
        sys.path.insert(0, REPO)
    _installed = True


def plain():
    """make the *uninstrumented* repository importable (replay processes)."""
    if REPO not in sys.path:
        sys.path.insert(0, REPO)
