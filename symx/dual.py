"""symx.dual -- forward-mode derivative through the real code.

A Dual carries (value, d value / d t).  Arithmetic follows the usual rules;
the two transcendental rules used are
    d 10**x       = ln10 * 10**x * dx
    d log10(a)    = da / (a * ln10)
with ln10 a positive symbolic constant shared by all rules of a path (it
cancels in every quantity checked).  Comparisons look at the value only."""
from . import core
from .core import SReal, lift_real, cur


def _ln10():
    c = cur()
    if 'ln10' not in c.notes:
        v = c.fresh_real('ln10')
        c.assume(v > 2)
        c.assume(v < 3)
        c.notes['ln10'] = SReal(v)
        c.axioms_used.add('ln(10) is a constant in (2,3) (derivative rules of 10**x and log10)')
    return c.notes['ln10']


class Dual:
    __slots__ = ('v', 'd')

    def __init__(self, v, d=0.0):
        self.v = v
        self.d = d

    @staticmethod
    def of(x):
        return x if isinstance(x, Dual) else Dual(x, 0.0)

    def __add__(self, o):
        o = Dual.of(o)
        return Dual(self.v + o.v, self.d + o.d)
    __radd__ = __add__

    def __sub__(self, o):
        o = Dual.of(o)
        return Dual(self.v - o.v, self.d - o.d)

    def __rsub__(self, o):
        o = Dual.of(o)
        return Dual(o.v - self.v, o.d - self.d)

    def __mul__(self, o):
        o = Dual.of(o)
        return Dual(self.v * o.v, self.d * o.v + self.v * o.d)
    __rmul__ = __mul__

    def __truediv__(self, o):
        o = Dual.of(o)
        q = self.v / o.v
        return Dual(q, (self.d - q * o.d) / o.v)

    def __rtruediv__(self, o):
        return Dual.of(o) / self

    def __neg__(self):
        return Dual(-self.v, -self.d)

    def __rpow__(self, base):
        if base != 10:
            raise core.Unsupported("Dual exponent with base %r" % (base,))
        e = 10 ** self.v
        return Dual(e, _ln10() * e * self.d)

    def log10(self):
        from .shims import SxMath
        return Dual(SxMath.log10(self.v), self.d / (self.v * _ln10()))

    def __lt__(self, o):
        return self.v < Dual.of(o).v

    def __le__(self, o):
        return self.v <= Dual.of(o).v

    def __gt__(self, o):
        return self.v > Dual.of(o).v

    def __ge__(self, o):
        return self.v >= Dual.of(o).v

    __hash__ = None
