"""C04 -- predictions do not depend on where the structure sits in space."""
import itertools

from symx import And, Or, Not, Implies, eq, le, ge, lt, ite
from symx.runner import Obligation
from . import common as H
from . import micro as M

PROPERTY = 'C04'
META = {'assumptions': [
    'translations by a vector on the 0.001 A grid (what a PDB file can express); exact reals',
    'effect of rounding constructed hydrogens to 0.001 A bounded by 0.01 pK units per reported value (stated tolerance)',
]}

TOL = 0.01

# proper rotations that map the coordinate grid onto itself: signed permutation
# matrices of determinant +1, as (perm, signs)
ROT24 = []
for perm in itertools.permutations(range(3)):
    for signs in itertools.product((1, -1), repeat=3):
        par = 1 if perm in ((0, 1, 2), (1, 2, 0), (2, 0, 1)) else -1
        if par * signs[0] * signs[1] * signs[2] == 1:
            ROT24.append((perm, signs))


def rot(r, v):
    perm, signs = r
    return tuple(signs[i] * v[perm[i]] for i in range(3))


def with_hydrogens_text(name, xh=None, legacy_names=False):
    """the fixture with the program's own hydrogens written back (3 decimals); xh: re-scale every X-H bond to
    this length (riding hydrogens as refinement programs write them, e.g. N-H 0.86 A): these are NOT the positions
    the program would build, so whether a supplied hydrogen is perceived as bonded matters"""
    base = M.run(M.text(name))
    lines = []
    conf = base.conformations['1A']
    for i, a in enumerate(conf.atoms):
        x, y, z = a.x, a.y, a.z
        if xh and a.element == 'H' and a.bonded_atoms:
            p = a.bonded_atoms[0]
            d = ((x - p.x) ** 2 + (y - p.y) ** 2 + (z - p.z) ** 2) ** 0.5
            x, y, z = [round(pc + (hc - pc) * xh / d, 3) for pc, hc in ((p.x, x), (p.y, y), (p.z, z))]
        nm = a.name
        if legacy_names and a.element == 'H' and len(nm) == 4 and nm[-1].isdigit():
            nm = nm[-1] + nm[:-1]      # old-style (PDB v2 / NMR / MD) hydrogen names: HD21 -> 1HD2, HH12 -> 2HH1
        lines.append(H.pdb_line(i + 1, nm, a.res_name.strip(), a.chain_id, a.res_num, x, y, z, element=a.element))
    return ''.join(lines) + 'TER   \n'


_CACHE = {}


def baseline(name, keep, extra_args=(), params=None):
    key = (name, keep, tuple(extra_args), bool(params))
    if key not in _CACHE:
        if keep:
            txt = with_hydrogens_text(name, xh=0.86 if keep == 'short' else None)
            _CACHE[key] = (txt, M.run(txt, args=['--keep-protons'], params=params))
        else:
            txt = M.text(name)
            _CACHE[key] = (txt, M.run(txt, args=list(extra_args), params=params))
    return _CACHE[key]


def _centre(name):
    xs = [[float(l[30:38]), float(l[38:46]), float(l[46:54])] for l in M.text(name).split('\n') if l.startswith('ATOM')]
    return [round(sum(c[i] for c in xs) / len(xs), 3) for i in range(3)]


def _mid(name):
    """residue number of the middle residue of a tri-peptide fixture"""
    nums = sorted({int(l[22:26]) for l in M.text(name).split('\n') if l.startswith('ATOM')})
    return nums[1]


def mk_translate(name, axis, lo, hi, keep, rotation=None, extra_args=(), params=None, pre=(0.0, 0.0, 0.0)):
    """pre: a concrete translation (on the 0.001 grid) applied before the symbolic one, e.g. to bring the structure to the origin"""
    def body(ctx):
        txt, base = baseline(name, keep, extra_args, params)
        k = ctx.int('shift_thousandths', int(round(lo * 1000)), int(round(hi * 1000)))
        t = k / 1000.0 if ctx.native else k / 1000

        def tr(a):
            v = (a.x, a.y, a.z)
            if rotation is not None:
                v = rot(rotation, v)
            v = [round(c + p, 3) if not hasattr(c, 'e') else c + p for c, p in zip(v, pre)]
            for ax in axis:
                v[ax] = v[ax] + t
            a.x, a.y, a.z = v
        other = M.run(txt, args=(['--keep-protons'] if keep else []) + list(extra_args), transform=tr, params=params)
        M.compare_heavy(ctx, 'pose', base, other)
        # 'Hetero groups are excluded from the last two claims': in a structure with a ligand neither pKa values nor the
        # ligand's hydrogens are claimed (which carboxylate oxygen of a ligand is typed O.co2- follows the bond-list order)
        hetero = {M.akey(a) for a in base.conformations['1A'].atoms if a.type != 'atom'}
        if keep:
            if not hetero:
                M.compare_results(ctx, 'pose(keep-protons)', base, other)
        else:
            if not hetero:
                M.compare_results(ctx, 'pose(built-hydrogens)', base, other, tol=TOL)
            # hydrogens: same set, positions equal up to the rigid motion and rounding
            # names of the hydrogens on one atom may be exchanged (the bond-list
            # order is frame dependent); compare the set of positions per parent atom
            hb, ho = M.hydrogens(base), M.hydrogens(other)
            pb_, po_ = {}, {}
            for key, v in hb.items():
                if v[3] not in hetero:
                    pb_.setdefault(v[3], []).append(v[:3])
            for key, v in ho.items():
                if v[3] not in hetero:
                    po_.setdefault(v[3], []).append(v[:3])
            ctx.claim('same-number-of-hydrogens-per-atom', {k: len(v) for k, v in pb_.items()} == {k: len(v) for k, v in po_.items()},
                      detail='%r vs %r' % ({k: len(v) for k, v in pb_.items()}, {k: len(v) for k, v in po_.items()}))
            heavy_nb = {M.akey(a): len([x for x in a.bonded_atoms if x.element != 'H']) for a in base.conformations['1A'].atoms}
            for parent in pb_:
                if len(po_.get(parent, [])) != len(pb_[parent]):
                    continue
                if rotation is not None and heavy_nb.get(parent, 0) < 2:
                    # a terminal atom: where its hydrogens point may follow the frame (Vector.orthogonal) -- the statement claims
                    # pKa values and determinants under rotation, not hydrogen positions; positions are claimed where the
                    # geometry determines them (two or more heavy neighbours)
                    continue
                moved = []
                for p in pb_[parent]:
                    q = [c + p_ for c, p_ in zip(rot(rotation, p) if rotation is not None else p, pre)]
                    for ax in axis:
                        q[ax] = q[ax] + t
                    moved.append(q)
                alts = []
                for perm in itertools.permutations(range(len(moved))):
                    alts.append(And(*[M.near(po_[parent][perm[i]][c], moved[i][c], 0.00101) for i in range(len(moved)) for c in range(3)]))
                ctx.claim('hydrogen-positions-within-rounding', Or(*alts) if len(alts) > 1 else alts[0], detail=repr(parent))
    return body


# -- kernel equivariance --------------------------------------------------------------

GENERATORS = [((1, 0, 2), (-1, 1, 1)), ((0, 2, 1), (1, -1, 1)), ((1, 2, 0), (1, 1, 1))]   # 90 deg about z, 90 deg about x, cyclic


def _pts(ctx, n, lo=-5, hi=5):
    return [(ctx.real('x%d' % i, lo, hi), ctx.real('y%d' % i, lo, hi), ctx.real('z%d' % i, lo, hi)) for i in range(n)]


def mk_kernels(gi):
    g = GENERATORS[gi]

    def body(ctx):
        import propka.calculations as C
        import propka.energy as E
        import propka.vector_algebra as V
        pts = _pts(ctx, 3)
        rp = [rot(g, p) for p in pts]
        A = [H.atom('A%d' % i, 'LIG', 1, 'A', *p) for i, p in enumerate(pts)]
        B = [H.atom('A%d' % i, 'LIG', 1, 'A', *p) for i, p in enumerate(rp)]
        ctx.claim('squared_distance-invariant', eq(C.squared_distance(A[0], A[1]), C.squared_distance(B[0], B[1])))
        va, vb = V.Vector(atom1=A[0], atom2=A[1]), V.Vector(atom1=B[0], atom2=B[1])
        ctx.claim('difference-vector-equivariant', And(*[eq(x, y) for x, y in zip(rot(g, (va.x, va.y, va.z)), (vb.x, vb.y, vb.z))]))
        wa, wb = V.Vector(atom1=A[0], atom2=A[2]), V.Vector(atom1=B[0], atom2=B[2])
        ca, cb = va.cross(wa), vb.cross(wb)
        ctx.claim('cross-equivariant', And(*[eq(x, y) for x, y in zip(rot(g, (ca.x, ca.y, ca.z)), (cb.x, cb.y, cb.z))]))
        ctx.claim('dot-invariant', eq(va.dot(wa), vb.dot(wb)))
        ctx.claim('sq_length-invariant', eq(va.sq_length(), vb.sq_length()))
        # angle/distance factors (needs distinct points)
        ctx.assume(Not(And(eq(pts[0][0], pts[1][0]), eq(pts[0][1], pts[1][1]), eq(pts[0][2], pts[1][2]))))
        ctx.assume(Not(And(eq(pts[2][0], pts[1][0]), eq(pts[2][1], pts[1][1]), eq(pts[2][2], pts[1][2]))))
        fa = E.angle_distance_factors(A[0], A[1], A[2])
        fb = E.angle_distance_factors(B[0], B[1], B[2])
        ctx.claim('angle_distance_factors-invariant', And(eq(fa[0], fb[0]), eq(fa[1], fb[1]), eq(fa[2], fb[2])))
    return body


def mk_backbone_reorganisation(gi):
    g = GENERATORS[gi]

    def body(ctx):
        """the local desolvation (backbone reorganisation) term of a carboxylate next to two backbone C=O groups is the
        same in a rotated frame: group centre and both C=O positions symbolic"""
        import propka.energy as E
        import propka.group as G

        class Conf:
            def __init__(self, t, b):
                self.t, self.b = t, b

            def get_backbone_reorganisation_groups(self):
                return self.t

            def get_backbone_co_groups(self):
                return self.b
        # one symbolic coordinate per C=O group (the carbon slides along an axis through the distances where the term
        # switches on and saturates; the oxygen points back at the carboxylate), everything else concrete: the frame is rotated
        # (binary fractions: every concrete difference is exact in doubles)
        centre = (0.25, -0.25, 0.125)
        cos = []
        for i, (axis, off) in enumerate(((0, (-1.25, 0.125, 0.25)), (1, (0.125, -1.25, 0.125)))):
            s = ctx.real('c%d' % i, 2.5, 8.0)
            c = [1.0, 0.5, -0.75]
            c[axis] = s
            c = tuple(c)
            o = tuple(c[k] + off[k] for k in range(3))
            cos.append((c, o))
        w = ctx.real('buried', 0, 1)

        def world(f):
            ta = H.atom('CG', 'ASP', 10, 'A', *f(centre))
            tg = G.COOGroup(ta)
            tg.x, tg.y, tg.z = f(centre)
            tg.buried = w
            bbs = []
            for i, (c, o) in enumerate(cos):
                ca = H.atom('C', 'ALA', 20 + i, 'A', *f(c))
                oa = H.atom('O', 'ALA', 20 + i, 'A', *f(o))
                bg = G.BBCGroup(ca)
                bg.parameters = tg.parameters = H.params()
                bg.x, bg.y, bg.z = f(c)          # the centre of a backbone C=O group is its carbon
                bg.set_interaction_atoms([oa], [oa])
                bbs.append(bg)
            E.backbone_reorganization(None, Conf([tg], bbs))
            return tg.energy_local
        e0 = world(lambda p: p)
        e1 = world(lambda p: rot(g, p))
        ctx.claim('backbone-reorganisation-invariant', eq(e0, e1))
    return body


def mk_protonation_kernels(gi, case):
    g = GENERATORS[gi]

    def body(ctx):
        """trigonal 2-bond and tetrahedral 3-bond constructions are built from
        normalised bond vectors only: equivariant before rounding"""
        import propka.protonate as P
        import propka.vector_algebra as V
        prot = P.Protonate()
        n = 2 if case == 'trigonal-2' else 3
        pts = _pts(ctx, 2 if n == 2 else 1, -2, 2)
        if n == 3:
            pts += [(1.25, 0.5, -0.25), (-0.5, -0.75, 1.0)]
        for p in pts:
            ctx.assume(Not(And(eq(p[0], 0), eq(p[1], 0), eq(p[2], 0))))
        # regular geometry: neighbours not collinear / coplanar with the centre
        # (otherwise the construction divides by a zero length)
        cx = pts[0][1] * pts[1][2] - pts[0][2] * pts[1][1]
        cy = pts[0][2] * pts[1][0] - pts[0][0] * pts[1][2]
        cz = pts[0][0] * pts[1][1] - pts[0][1] * pts[1][0]
        if n == 2:
            ctx.assume(ge(cx * cx + cy * cy + cz * cz, 0.01))      # clearly not collinear
        else:
            dd = cx * pts[2][0] + cy * pts[2][1] + cz * pts[2][2]
            ctx.assume(Or(ge(dd, 0.1), le(dd, -0.1)))     # clearly not coplanar

        def build(points):
            conf = H.conformation()
            centre = H.atom('N', 'LIG', 1, 'A', 0.0, 0.0, 0.0)
            conf.add_atom(centre)
            for i, p in enumerate(points):
                b = H.atom('C%d' % i, 'LIG', 1, 'A', *p)
                centre.bonded_atoms.append(b)
                b.bonded_atoms.append(centre)
                conf.add_atom(b)
            centre.number_of_protons_to_add = 1
            captured = []
            old = P.Protonate.add_proton
            P.Protonate.add_proton = staticmethod(lambda atom, position: captured.append(position))
            try:
                if case == 'trigonal-2':
                    prot.trigonal(centre)
                else:
                    prot.tetrahedral(centre)
            finally:
                P.Protonate.add_proton = old
            return captured
        ha = build(pts)
        hb = build([rot(g, p) for p in pts])
        ctx.claim('one-hydrogen', len(ha) == 1 and len(hb) == 1)
        if len(ha) == 1 and len(hb) == 1:
            ra = rot(g, (ha[0].x, ha[0].y, ha[0].z))
            ctx.claim('construction-equivariant', And(eq(ra[0], hb[0].x), eq(ra[1], hb[0].y), eq(ra[2], hb[0].z)))
    return body


def o_planarity(ctx):
    import propka.ligand as L
    g = GENERATORS[ctx.choice('generator', [0, 1, 2])]
    pts = [(0.0, 0.0, 0.0), (1.4, 0.0, 0.0), (ctx.real('x2', -2, 2), ctx.real('y2', 0.5, 2), 0.0),
           (ctx.real('x3', -2, 2), ctx.real('y3', -2, 2), ctx.real('z3', -1, 1))]
    A = [H.atom('C%d' % i, 'LIG', 1, 'A', *p) for i, p in enumerate(pts)]
    B = [H.atom('C%d' % i, 'LIG', 1, 'A', *rot(g, p)) for i, p in enumerate(pts)]
    ctx.assume(Not(And(eq(pts[3][0], 0), eq(pts[3][1], 0), eq(pts[3][2], 0))))
    ctx.claim('are_atoms_planar-invariant', bool(L.are_atoms_planar(A)) == bool(L.are_atoms_planar(B)))


def shifted_text(txt, vec):
    out = []
    for l in txt.split('\n'):
        if l[:6] in ('ATOM  ', 'HETATM'):
            c = [float(l[30:38]) + vec[0], float(l[38:46]) + vec[1], float(l[46:54]) + vec[2]]
            l = l[:30] + '%8.3f%8.3f%8.3f' % tuple(c) + l[54:]
        if l:
            out.append(l)
    return '\n'.join(out) + '\n'


def mk_translate_text(name, pos):
    """the translation written into the file (so that the record reader sees the translated coordinates): the structure moved
    so that one atom lies exactly on the origin, one grid step beside it, or far away; concrete runs"""
    def body(ctx):
        txt, base = baseline(name, False)
        dx = ctx.choice('offset_from_origin', [0.0, 0.001, -0.001, 50.0])
        vec = (-pos[0] + dx, -pos[1], -pos[2])
        other = M.run(shifted_text(txt, vec))
        M.compare_heavy(ctx, 'pose(text)', base, other)
        M.compare_results(ctx, 'pose(text)', base, other, tol=TOL)
        ctx.claim('same-number-of-atoms', len(base.conformations['1A'].atoms) == len(other.conformations['1A'].atoms))
    return body


def mk_rotations(name, params=None):
    """the structure in each of the 24 grid rotations (no translation), compared with the pose of the file"""
    def body(ctx):
        r = ctx.choice('rotation', ROT24)
        return mk_translate(name, (0,), 0.0, 0.0, False, rotation=r, params=params)(ctx)
    return body


def obligations(tier):
    code_pipe = ['propka/run.py:single', 'propka/input.py:read_molecule_file', 'propka/bonds.py:BondMaker.find_bonds_for_atoms_using_boxes',
                 'propka/conformation_container.py:ConformationContainer.extract_groups', 'propka/conformation_container.py:ConformationContainer.calculate_pka',
                 'propka/protonate.py:Protonate.protonate_atom', 'propka/energy.py:radial_volume_desolvation', 'propka/determinants.py:*']
    obs = []
    templates = ['tri_ASP', 'tri_HIS', 'tri_ARG', 'pair_CYS_CYS_bridge_along_x'] if tier == 'quick' else [
        'pair_CYS_CYS_bridge_along_x', 'pair_CYS_CYS_bridge', 'pair_GLU_ARG_TYR', 'lig_MTX',
        'tri_ASP', 'tri_GLU', 'tri_HIS', 'tri_CYS', 'tri_TYR', 'tri_LYS', 'tri_ARG', 'tri_ASN', 'tri_GLN', 'tri_TRP', 'tri_SER', 'tri_PRO', 'pep8']
    axes = [((0,), 'x'), ((1,), 'y'), ((2,), 'z')] if tier == 'quick' else [((0,), 'x'), ((1,), 'y'), ((2,), 'z'), ((0, 1, 2), 'diagonal')]
    for name in templates:
        for ax, axn in axes:
            for keep in (False, True):
                if tier == 'quick' and keep and axn != 'x':
                    continue
                obs.append(Obligation('O1-translation[%s,%s,%s]' % (name, axn, 'keep-protons' if keep else 'built-hydrogens'),
                                      mk_translate(name, ax, 0.0, 2.509 if tier == 'quick' else 5.019, keep), code=code_pipe,
                                      bounds='micro-structure %s (cut from the repository\'s test structures) shifted by t = k/1000 along %s, k symbolic integer with t in [0, %s]; '
                                             'whole real pipeline' % (name, axn, '2.509' if tier == 'quick' else '5.019'),
                                      claim_doc='bonds, groups, num_volume, buried, energy_volume identical; pKa and determinants identical (keep-protons) / '
                                                'within %.2f (built hydrogens, positions within rounding of the shifted ones)' % TOL,
                                      max_paths=5000, wall_s=170 if tier == 'quick' else 1200, query_timeout_ms=20000))
    # incompletely modelled residues ('for every structure'): side chains cut back, so that group set-up takes its fall-back paths
    # (group centre, interaction atoms); translation along one axis each
    cut = [('tri_ASP~-OD2@25', 'x'), ('tri_ASP~-OD1-OD2@25', 'y'), ('tri_GLU~-OE1-OE2@21', 'z')]
    if tier == 'thorough':
        cut += [('tri_HIS~-ND1-CE1@%d' % _mid('tri_HIS'), 'x'), ('tri_ARG~-NH1-NH2@%d' % _mid('tri_ARG'), 'y'), ('tri_TYR~-OH@%d' % _mid('tri_TYR'), 'z'), ('tri_LYS~-NZ@%d' % _mid('tri_LYS'), 'x'),
                ('tri_ASN~-OD1@%d' % _mid('tri_ASN'), 'y'), ('tri_GLN~-NE2@%d' % _mid('tri_GLN'), 'z'), ('tri_TRP~-NE1-CE2@%d' % _mid('tri_TRP'), 'x'), ('pep8~-OD1-OD2@29', 'y'), ('pair_ASP_ARG~-OD1@29', 'z')]
    for name, axn in cut:
        ax = ('xyz'.index(axn),)
        cen = _centre(name)
        # ... compared with the same structure brought to the coordinate origin (a point that does not move with the molecule)
        obs.append(Obligation('O1-translation-to-origin[%s,%s,built-hydrogens]' % (name, axn), mk_translate(name, ax, -1.25, 1.259, False, pre=tuple(-c for c in cen)),
                              code=code_pipe + ['propka/group.py:*Group.setup_atoms', 'propka/group.py:Group.set_center'],
                              bounds='micro-structure %s moved so that its centre is at the origin, then shifted by t = k/1000 along %s, t in [-1.25,1.259]; compared with the structure where it is in the file' % (name, axn),
                              claim_doc='as O1-translation', max_paths=5000, wall_s=170 if tier == 'quick' else 1200))
        obs.append(Obligation('O1-translation[%s,%s,built-hydrogens]' % (name, axn), mk_translate(name, ax, 0.0, 2.509, False), code=code_pipe + ['propka/group.py:*Group.setup_atoms', 'propka/group.py:Group.set_center'],
                              bounds='micro-structure %s (atoms after ~ removed from residue @n: an incompletely modelled side chain) shifted by t = k/1000 along %s, t in [0,2.509]' % (name, axn),
                              claim_doc='as O1-translation', max_paths=5000, wall_s=170 if tier == 'quick' else 1200))
    # one atom exactly on the coordinate origin (and 1-2 grid steps beside it): translations by minus an atom's position
    for name, serial_index in ([('tri_ASP', 12), ('pair_ASP_ARG', 20)] if tier == 'quick' else [('tri_ASP', 12), ('tri_ASP', 0), ('pair_ASP_ARG', 20), ('tri_HIS', 9), ('pep8', 30), ('tri_LYS', 14)]):
        at = [l for l in M.text(name).split('\n') if l.startswith('ATOM')][serial_index]
        pos = (float(at[30:38]), float(at[38:46]), float(at[46:54]))
        obs.append(Obligation('O1-translation-in-the-text-atom-onto-origin[%s,%s %s]' % (name, at[17:20] + at[22:26].strip(), at[12:16].strip()), mk_translate_text(name, pos),
                              code=code_pipe + ['propka/input.py:get_atom_lines_from_pdb', 'propka/atom.py:Atom.set_properties'], kind='table-check',
                              bounds='%s with the translation written into the coordinate columns: atom %s of residue %s at (0,0,0), at (+-0.001,0,0) and at (50,0,0)' % (name, at[12:16].strip(), at[17:20] + at[22:26].strip()),
                              claim_doc='bonds, groups, desolvation identical; pKa within 0.01; no atom lost', max_paths=50))
        obs.append(Obligation('O1-translation-atom-onto-origin[%s,%s %s]' % (name, at[17:20] + at[22:26].strip(), at[12:16].strip()), mk_translate(name, (0,), -0.002, 0.002, False, pre=tuple(-c for c in pos)),
                              code=code_pipe + ['propka/input.py:get_atom_lines_from_pdb'],
                              bounds='%s translated so that atom %s of residue %s lies at (t, 0, 0), t = k/1000 in [-0.002, 0.002] (exactly on the origin for k = 0)' % (name, at[12:16].strip(), at[17:20] + at[22:26].strip()),
                              claim_doc='as O1-translation (an atom at 0.000 0.000 0.000 is an atom)', max_paths=200))
    # all 24 grid rotations of a structure with interacting side chains: complete, and with an arginine that lacks one
    # guanidinium nitrogen (finding F11: the hydrogens of the remaining terminal nitrogen then get a frame-dependent rotamer)
    # ('name/57:CZ-NH1-NH2-NE': the structure turned so that the guanidinium plane of residue 57 is exactly z = const: plane normals with exactly zero components)
    for name in (['pair_GLU_ARG_TYR', 'pair_GLU_ARG_TYR/57:CZ-NH1-NH2-NE', 'pair_GLU_ARG_TYR~-NH2@57'] if tier == 'quick' else ['pair_GLU_ARG_TYR', 'pair_GLU_ARG_TYR/57:CZ-NH1-NH2-NE', 'pair_ASP_ARG/87:CZ-NH1-NH2-NE', 'pair_ASP_ARG', 'pair_GLU_ARG_TYR~-NH2@57', 'pair_GLU_ARG_TYR~-NH1@57', 'pair_GLU_ARG_TYR~-NE@57', 'pair_ASP_ARG~-NH1@87']):
        obs.append(Obligation('O4-rotations[%s]' % name, mk_rotations(name), code=code_pipe + ['propka/protonate.py:Protonate.trigonal', 'propka/vector_algebra.py:Vector.orthogonal'],
                              bounds='micro-structure %s in each of the 24 axis-permuting proper rotations' % name,
                              claim_doc='as O1-translation, hydrogens compared after the same rotation', max_paths=200, split_input=('rotation', 8),
                              outside='known finding F11 for incomplete arginines (reported as KNOWN-FINDING)' if '~' in name else ''))
    # a cysteine carrying a mercaptoethanol adduct (mixed disulfide, the other sulfur is not a cysteine SG): whether the cysteine is
    # bridged (and so not titrated) must not depend on the order in which the cell traversal meets the two sulfurs
    obs.append(Obligation('O4-rotations[complex_BME]', mk_rotations('complex_BME'), code=code_pipe + ['propka/bonds.py:BondMaker._find_bonds_for_atoms'],
                          bounds='tri_CYS with a mercaptoethanol adduct on the cysteine (synthetic S2-C2-C1-O1) in each of the 24 axis-permuting proper rotations',
                          claim_doc='bonds, groups (the cysteine stays a bridged, non-titrated group), desolvation identical', max_paths=200, split_input=('rotation', 8)))
    for ax, axn in (axes[:1] if tier == 'quick' else axes[:3]):
        obs.append(Obligation('O1-translation[complex_BME,%s,built-hydrogens]' % axn, mk_translate('complex_BME', ax, 0.0, 2.509, False), code=code_pipe + ['propka/bonds.py:BondMaker._find_bonds_for_atoms'],
                              bounds='tri_CYS with a mercaptoethanol adduct shifted by t = k/1000 along %s, t in [0,2.509]' % axn, claim_doc='as O1-translation (heavy-atom clauses)', max_paths=5000, wall_s=170 if tier == 'quick' else 1200))
    # the same with burial switched on: backbone reorganisation, Coulomb and iterative terms are then non-zero
    for name in (['pair_GLU_ARG_TYR', 'pep8'] if tier == 'quick' else ['pair_GLU_ARG_TYR', 'pep8', 'pair_ASP_ARG', 'pair_LYS_ASP', 'pair_ASP_ASP', 'complex_ZN']):
        obs.append(Obligation('O4-rotations[%s,buried]' % name, mk_rotations(name, M.BURIED), code=code_pipe + ['propka/energy.py:backbone_reorganization', 'propka/energy.py:radial_volume_desolvation'],
                              bounds='micro-structure %s with Nmin/Nmax lowered to 6/30 in each of the 24 axis-permuting proper rotations' % name,
                              claim_doc='as O1-translation (the local desolvation / backbone-reorganisation term depends on heavy atoms only)', max_paths=200, split_input=('rotation', 8)))
    # a protein-ligand-ion micro-complex: the heavy-atom clauses (bonds incl. protein-ligand, protein / ligand / ion groups, desolvation, buried)
    for ax, axn in (axes[:1] if tier == 'quick' else axes[:3]):
        for params, ptag in (((M.BURIED, ',buried'),) if tier == 'quick' else ((None, ''), (M.BURIED, ',buried'))):
            obs.append(Obligation('O1-translation[complex_MTX,%s,built-hydrogens%s]' % (axn, ptag), mk_translate('complex_MTX', ax, 0.0, 2.509, False, params=params), code=code_pipe + ['propka/ligand.py:assign_sybyl_type', 'propka/determinants.py:set_ion_determinants'],
                                  bounds='methotrexate with the residues lining it and a chloride (cut from 4DFR)%s shifted by t = k/1000 along %s, t in [0,2.509]' % (' with Nmin/Nmax lowered to 6/30' if params else '', axn),
                                  claim_doc='bonds, groups, num_volume, buried, energy_volume identical; hydrogens on amino-acid atoms at the shifted positions (pKa values and ligand hydrogens are not claimed: hetero groups are excluded by the statement)',
                                  max_paths=5000, wall_s=170 if tier == 'quick' else 1200, split_input=('shift_thousandths', 8)))
    # ligands alone under translation (ring perception, SYBYL typing, ligand groups).  Rotations are not claimed for ligand groups:
    # the statement lists protein and ion groups, and the aromaticity verdict of a slightly puckered ring (copy B of
    # methotrexate in 4DFR) does depend on the orientation on the unchanged tree (DESIGN.md, observations)
    for name in (['lig_MTX_B', 'lig_KNI'] if tier == 'quick' else ['lig_MTX_B', 'lig_KNI', 'lig_MTX']):
        obs.append(Obligation('O1-translation[%s,x,built-hydrogens]' % name, mk_translate(name, (0,), 0.0, 2.509, False), code=code_pipe + ['propka/ligand.py:assign_sybyl_type', 'propka/ligand.py:is_aromatic_ring', 'propka/ligand.py:identify_ring'],
                              bounds='ligand %s shifted by t = k/1000 along x, t in [0,2.509]' % name, claim_doc='bonds, groups (ligand group types), desolvation identical', max_paths=5000, wall_s=170, split_input=('shift_thousandths', 4)))
    # burial switched on (Nmin/Nmax 6/30): Coulomb, iterative and coupling paths active
    for name in (['pair_ASP_ARG'] if tier == 'quick' else ['pair_ASP_ARG', 'pair_GLU_ARG_TYR', 'pair_ASP_ASP', 'pair_LYS_ASP', 'pep8']):
        for ax, axn in axes[:3]:
            for keep in (False, True):
                obs.append(Obligation('O1-translation[%s,%s,%s,buried]' % (name, axn, 'keep-protons' if keep else 'built-hydrogens'),
                                      mk_translate(name, ax, 0.0, 2.509, keep, params=M.BURIED), code=code_pipe,
                                      bounds='%s with Nmin/Nmax lowered to 6/30 shifted by t = k/1000 along %s, t in [0,2.509]' % (name, axn),
                                      claim_doc='as O1-translation', max_paths=5000, wall_s=170 if tier == 'quick' else 1200))
    obs.append(Obligation('O3-coordinate-fields-read-in-full', H.o_coordinate_fields, code=['propka/atom.py:Atom.set_properties', 'propka/atom.py:Atom.__init__'],
                          bounds='one ATOM record, one coordinate field (x, y or z) with its 4 leading characters over {blank, -, 0-9} and 3 decimals symbolic: every %8.3f rendering from -999.999 to 9999.999',
                          claim_doc='the parsed coordinate is the number written in the field (a translation to the ends of the PDB range is not folded, mirrored or truncated)', max_paths=2000))
    # supplied hydrogens that are not where the program would put them (X-H 0.86 A), keep-protons
    for name in (['tri_ARG', 'pair_ASP_ARG'] if tier == 'quick' else ['tri_ARG', 'pair_ASP_ARG', 'tri_HIS', 'tri_ASN', 'pep8', 'pair_GLU_ARG_TYR']):
        for ax, axn in axes[:3]:
            obs.append(Obligation('O1-translation[%s,%s,keep-protons,riding-hydrogens]' % (name, axn), mk_translate(name, ax, 0.0, 2.509, 'short'), code=code_pipe,
                                  bounds='%s with supplied hydrogens at X-H 0.86 A (--keep-protons) shifted by t = k/1000 along %s, t in [0,2.509]' % (name, axn),
                                  claim_doc='bonds, groups and every pKa/determinant identical to the unshifted run', max_paths=5000, wall_s=170 if tier == 'quick' else 1200))
    # all hydrogens (incl. sp3 carbons) under --protonate-all: their set must be pose independent as well
    for name in (['tri_ASP'] if tier == 'quick' else ['tri_ASP', 'tri_HIS', 'tri_LYS', 'lig_KNI']):
        for ax, axn in axes[:3]:
            obs.append(Obligation('O1-translation[%s,%s,protonate-all]' % (name, axn), mk_translate(name, ax, 0.0, 2.509, False, extra_args=['--protonate-all']), code=code_pipe,
                                  bounds='%s with --protonate-all shifted by t = k/1000 along %s, t in [0,2.509]' % (name, axn),
                                  claim_doc='as O1-translation; every constructed hydrogen (incl. those on sp3 carbons) within rounding of the shifted one', max_paths=5000,
                                  wall_s=170 if tier == 'quick' else 1200))
    # shifts that put the structure across the origin (negative coordinates, cell index -1/0)
    for name in (['tri_ASP'] if tier == 'quick' else ['tri_ASP', 'tri_HIS', 'tri_ARG', 'tri_LYS']):
        cen = _centre(name)
        for ax, axn in axes[:3]:
            lo = -cen[ax[0]] - 1.25
            obs.append(Obligation('O1-translation-across-origin[%s,%s]' % (name, axn), mk_translate(name, ax, lo, lo + 2.509, False), code=code_pipe,
                                  bounds='%s shifted along %s by t = k/1000 in [%.3f, %.3f]: the structure straddles the coordinate origin' % (name, axn, lo, lo + 2.509),
                                  claim_doc='as O1-translation', max_paths=5000, wall_s=170 if tier == 'quick' else 1200))
    if tier == 'thorough':
        for name in ('tri_ASP', 'tri_HIS'):
            for ri, r in enumerate(ROT24):
                obs.append(Obligation('O4-rotation%02d+translation[%s]' % (ri, name), mk_translate(name, (0,), 0.0, 2.509, False, rotation=r), code=code_pipe,
                                      bounds='%s rotated by signed permutation %r then shifted along x by t in [0,2.509]' % (name, r),
                                      claim_doc='as O1, hydrogens compared after the same rigid motion', max_paths=5000, wall_s=1200))
        for name in ('tri_ASP', 'tri_LYS'):
            for far in (-999.0, 9990.0):
                obs.append(Obligation('O1-translation-far[%s,%g]' % (name, far), mk_translate(name, (0,), far - 35.0, far - 35.0 + 2.509, False), code=code_pipe,
                                      bounds='%s shifted to the end of the PDB coordinate field (x near %g)' % (name, far), claim_doc='as O1', max_paths=5000, wall_s=1200))
    for gi in range(3):
        obs.append(Obligation('O2-kernel-equivariance[generator%d]' % gi, mk_kernels(gi),
                              code=['propka/calculations.py:squared_distance', 'propka/vector_algebra.py:Vector.__init__', 'propka/vector_algebra.py:Vector.cross',
                                    'propka/vector_algebra.py:Vector.dot', 'propka/energy.py:angle_distance_factors'],
                              bounds='3 fully symbolic points in [-5,5]^3; generator %d of the 24-element rotation group of the grid (90 deg about z / x, cyclic permutation)' % gi,
                              claim_doc='f(R v) = R f(v) / f(v)', query_timeout_ms=60000))
        for case in ('trigonal-2', 'tetrahedral-3'):
            obs.append(Obligation('O2-hydrogen-construction-equivariance[%s,generator%d]' % (case, gi), mk_protonation_kernels(gi, case),
                                  code=['propka/protonate.py:Protonate.trigonal', 'propka/protonate.py:Protonate.tetrahedral', 'propka/protonate.py:Protonate.set_bond_distance',
                                        'propka/vector_algebra.py:Vector.rescale'],
                                  bounds='%s: fully symbolic neighbour positions in [-2,2]^3 (trigonal: both; tetrahedral: one, the other two fixed), not collinear/coplanar with the centre' % case,
                                  claim_doc='constructed position (before rounding) is equivariant', query_timeout_ms=60000, wall_s=300))
    for gi in range(3):
        obs.append(Obligation('O2-backbone-reorganisation-equivariance[generator%d]' % gi, mk_backbone_reorganisation(gi), code=['propka/energy.py:backbone_reorganization', 'propka/energy.py:angle_distance_factors'],
                              bounds='a carboxylate and two backbone C=O groups, each carbon sliding along an axis (2.5 to 8 A from the centre plane, the oxygen pointing back), buried fraction in [0,1]; generator %d of the rotation group' % gi,
                              claim_doc='the local desolvation term is the same in the rotated frame', query_timeout_ms=60000, wall_s=170 if tier == 'quick' else 900, max_paths=400))
    obs.append(Obligation('O2-planarity-invariance', o_planarity, code=['propka/ligand.py:are_atoms_planar'],
                          bounds='4 atoms, two fixed, two symbolic; 3 generators', claim_doc='planarity verdict invariant', query_timeout_ms=60000))
    return obs


MANIFEST_ENTRY = {
    'level_note': ('Pipeline level: the whole real pipeline on 3-residue micro-structures with every coordinate shifted by a symbolic grid translation '
                   '(cell indices and hydrogen rounding are the only places the shift survives; both are explored by forks). Quick: 3 templates, one axis '
                   'at a time, t in [0,2.509]; thorough: 13 templates, 4 directions, t in [0,5.019], ends of the PDB coordinate field, and the 24 grid '
                   'rotations composed with a symbolic shift. Kernel level: equivariance of the geometric kernels under generators of the rotation group '
                   'with fully symbolic coordinates. 1-bond hydrogen constructions (generic rotation axis) are covered only through the pipeline runs. '
                   'Exact-real model: at exact cut-off distances doubles can differ (DESIGN.md section 8).'
                   ' O3: coordinate fields symbolic over every %8.3f rendering. Incomplete residues and the ligand/ion complex are included; hetero groups are excluded from the pKa / hydrogen clauses as the statement says.'),
}
