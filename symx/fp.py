"""symx.fp -- IEEE-754 binary64 shadow values (round-to-nearest-even) for the
few kernels where floating point itself is the subject.  Decimal inputs enter
as signed bit-vectors divided by a power of ten (the correctly rounded double
of the decimal literal), the only encoding the solvers decide here."""
import z3

from . import core
from .core import SBool, cur

F64 = z3.Float64()
RNE = z3.RNE()


def fpval(x):
    if isinstance(x, SFloat64):
        return x.e
    if isinstance(x, bool):
        x = int(x)
    if isinstance(x, (int, float)):
        return z3.FPVal(float(x), F64)
    raise TypeError("cannot lift %r to Float64" % (type(x),))


class SFloat64:
    __slots__ = ('e',)

    def __init__(self, e):
        self.e = e

    def __add__(self, o):
        return SFloat64(z3.fpAdd(RNE, self.e, fpval(o)))
    __radd__ = __add__

    def __sub__(self, o):
        return SFloat64(z3.fpSub(RNE, self.e, fpval(o)))

    def __rsub__(self, o):
        return SFloat64(z3.fpSub(RNE, fpval(o), self.e))

    def __mul__(self, o):
        return SFloat64(z3.fpMul(RNE, self.e, fpval(o)))
    __rmul__ = __mul__

    def __truediv__(self, o):
        return SFloat64(z3.fpDiv(RNE, self.e, fpval(o)))

    def __rtruediv__(self, o):
        return SFloat64(z3.fpDiv(RNE, fpval(o), self.e))

    def __neg__(self):
        return SFloat64(z3.fpNeg(self.e))

    def __lt__(self, o):
        return SBool(z3.fpLT(self.e, fpval(o)))

    def __le__(self, o):
        return SBool(z3.fpLEQ(self.e, fpval(o)))

    def __gt__(self, o):
        return SBool(z3.fpGT(self.e, fpval(o)))

    def __ge__(self, o):
        return SBool(z3.fpGEQ(self.e, fpval(o)))

    def __eq__(self, o):
        return SBool(z3.fpEQ(self.e, fpval(o)))

    def __ne__(self, o):
        return SBool(z3.Not(z3.fpEQ(self.e, fpval(o))))
    __hash__ = None

    def __format__(self, spec):
        return cur().format_hook(self, spec)

    def __repr__(self):
        return 'F64(%s)' % (self.e,)


def decimal_input(ctx, name, lo, hi, scale=100, bits=16):
    """double nearest to k/scale for a symbolic integer k in [lo, hi]"""
    if getattr(ctx, 'native', False):
        return int(ctx._get(name)) / float(scale), int(ctx._get(name))
    b = z3.BitVec(name, bits)
    ctx.inputs[name] = b
    ctx.input_meta[name] = ('decimal', lo, hi, scale)
    ctx.assume(z3.And(b >= lo, b <= hi))
    ctx.nonlinear = True      # force one-shot solving
    return SFloat64(z3.fpDiv(RNE, z3.fpSignedToFP(RNE, b, F64), z3.FPVal(float(scale), F64))), b


def of_bv(bv, scale=100):
    return SFloat64(z3.fpDiv(RNE, z3.fpSignedToFP(RNE, bv, F64), z3.FPVal(float(scale), F64)))
