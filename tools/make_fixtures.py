#!/usr/bin/env python3
"""cut micro-structures out of the repository's own test structures (inputs,
not oracles: no expected value is stored).  Run once; the result is committed
under /verif/fixtures so that the checks do not depend on the tests directory."""
import collections
import os
import sys

SRC = '/repo/tests/pdb'
OUT = os.path.join(os.path.dirname(os.path.dirname(os.path.abspath(__file__))), 'fixtures')


def residues(path, chain):
    res = collections.OrderedDict()
    for ln in open(path):
        if ln.startswith('ATOM') and ln[21] == chain and ln[16] in ' A':
            key = (int(ln[22:26]), ln[26])
            res.setdefault(key, []).append(ln[:16] + ' ' + ln[17:])
    return res


def cut(res, keys, name, ter=True):
    with open(os.path.join(OUT, name + '.pdb'), 'w') as fh:
        for k in keys:
            for ln in res[k]:
                if ln[12:16].strip().startswith('H'):
                    continue
                fh.write(ln[:80].rstrip() + '\n')
        if ter:
            fh.write('TER   \n')


def main():
    r = residues(os.path.join(SRC, '1HPX.pdb'), 'A')
    keys = list(r)
    names = {k: r[k][0][17:20] for k in keys}
    done = set()
    for i in range(1, len(keys) - 1):
        t = names[keys[i]]
        if t in done:
            continue
        done.add(t)
        cut(r, keys[i - 1:i + 2], 'tri_' + t)
    # a longer peptide with several ionizable groups in contact
    cut(r, keys[24:32], 'pep8')
    # C-terminus (with OXT)
    cut(r, keys[-3:], 'cterm_PHE')
    rb = residues(os.path.join(SRC, '1HPX.pdb'), 'B')

    def seg(res, nums):
        return [k for k in res if k[0] in nums]
    # interacting pairs (side chains within ~4 A in 1HPX)
    cut(r, seg(r, (34, 35, 36, 56, 57, 58, 59)), 'pair_GLU_ARG_TYR')
    cut(r, seg(r, (28, 29, 30, 86, 87, 88)), 'pair_ASP_ARG')
    cut(r, seg(r, (42, 43, 44, 59, 60, 61)), 'pair_LYS_ASP')
    with open(os.path.join(OUT, 'pair_ASP_ASP.pdb'), 'w') as fh:
        for res, ch in ((r, 'A'), (rb, 'B')):
            for k in seg(res, (24, 25, 26)):
                for ln in res[k]:
                    if not ln[12:16].strip().startswith('H'):
                        fh.write(ln[:80].rstrip() + '\n')
            fh.write('TER   \n')
    # an N-terminal Asp (penalised: coupled to its own N+) salt-bridged to a Lys of another fragment
    with open(os.path.join(OUT, 'nterm_ASP_LYS.pdb'), 'w') as fh:
        for nums in ((60, 61), (42, 43, 44)):
            for k in seg(r, nums):
                for ln in r[k]:
                    if not ln[12:16].strip().startswith('H'):
                        fh.write(ln[:80].rstrip() + '\n')
            fh.write('TER   \n')
    # a disulfide from 3SGB (chain E)
    re_ = residues(os.path.join(SRC, '3SGB.pdb'), 'E')
    sg = [(k, [float(l[30:38]), float(l[38:46]), float(l[46:54])]) for k in re_ for l in re_[k] if l[17:20] == 'CYS' and l[12:16].strip() == 'SG']
    best = None
    for i, (k1, p1) in enumerate(sg):
        for k2, p2 in sg[i + 1:]:
            d = sum((a - b) ** 2 for a, b in zip(p1, p2)) ** 0.5
            if d < 2.5 and best is None:
                best = (k1, k2)
    if best:
        ks = list(re_)
        i1, i2 = ks.index(best[0]), ks.index(best[1])
        cut(re_, ks[i1 - 1:i1 + 2] + ks[i2 - 1:i2 + 2], 'pair_CYS_CYS_bridge')
    # the same disulfide rigidly re-oriented so that the S-S bond lies along x (coordinates re-rounded to 0.001):
    # a pose in which the two sulfurs can fall into cells that are two apart if the cells are too narrow
    import math
    src = open(os.path.join(OUT, 'pair_CYS_CYS_bridge.pdb')).read().split('\n')
    at = [l for l in src if l.startswith('ATOM')]
    sg = [[float(l[30:38]), float(l[38:46]), float(l[46:54])] for l in at if l[12:16].strip() == 'SG']
    if len(sg) == 2:
        v = [b - a for a, b in zip(sg[0], sg[1])]
        n = math.sqrt(sum(x * x for x in v))
        e1 = [x / n for x in v]
        h = [0.0, 0.0, 1.0] if abs(e1[2]) < 0.9 else [0.0, 1.0, 0.0]
        d = sum(a * b for a, b in zip(h, e1))
        e2 = [a - d * b for a, b in zip(h, e1)]
        n2 = math.sqrt(sum(x * x for x in e2))
        e2 = [x / n2 for x in e2]
        e3 = [e1[1] * e2[2] - e1[2] * e2[1], e1[2] * e2[0] - e1[0] * e2[2], e1[0] * e2[1] - e1[1] * e2[0]]
        with open(os.path.join(OUT, 'pair_CYS_CYS_bridge_along_x.pdb'), 'w') as fh:
            for l in src:
                if l.startswith('ATOM'):
                    p = [float(l[30:38]), float(l[38:46]), float(l[46:54])]
                    q = [sum(a * b for a, b in zip(e, p)) for e in (e1, e2, e3)]
                    l = l[:30] + '%8.3f%8.3f%8.3f' % tuple(q) + l[54:]
                if l:
                    fh.write(l + '\n')
    # the ligand of 1HPX with the residues lining it is too big; take the ligand alone
    with open(os.path.join(OUT, 'lig_KNI.pdb'), 'w') as fh:
        for ln in open(os.path.join(SRC, '1HPX.pdb')):
            if ln.startswith('HETATM') and ln[17:20] == 'KNI':
                fh.write(ln[:80].rstrip() + '\n')
    # methotrexate from 4DFR (carboxylates, aromatic amines) - first copy only
    with open(os.path.join(OUT, 'lig_MTX.pdb'), 'w') as fh:
        for ln in open(os.path.join(SRC, '4DFR.pdb')):
            if ln.startswith('HETATM') and ln[17:20] == 'MTX' and ln[21] == 'A':
                fh.write(ln[:80].rstrip() + '\n')
    # the second methotrexate copy of 4DFR (chain B): its fused rings are less planar than those of copy A
    with open(os.path.join(OUT, 'lig_MTX_B.pdb'), 'w') as fh:
        for ln in open(os.path.join(SRC, '4DFR.pdb')):
            if ln.startswith('HETATM') and ln[17:20] == 'MTX' and ln[21] == 'B':
                fh.write(ln[:80].rstrip() + '\n')
    # methotrexate copy A with the residues that line it (ASP 27, ARG 57, ARG 52, LYS 32 + chain neighbours) and the chloride of chain A:
    # a protein-ligand-ion micro-complex
    r4 = residues(os.path.join(SRC, '4DFR.pdb'), 'A')
    with open(os.path.join(OUT, 'complex_MTX.pdb'), 'w') as fh:
        for k in seg(r4, (26, 27, 28, 31, 32, 33, 51, 52, 53, 56, 57, 58)):
            for ln in r4[k]:
                if not ln[12:16].strip().startswith('H'):
                    fh.write(ln[:80].rstrip() + '\n')
        fh.write('TER   \n')
        for ln in open(os.path.join(SRC, '4DFR.pdb')):
            if ln.startswith('HETATM') and ln[21] == 'A' and ln[17:20] in ('MTX', ' CL'):
                fh.write(ln[:80].rstrip() + '\n')
    # the zinc site of 1FTJ chain A: ZN 1.96 A from GLU 42 OE1 (inside the bonding cut-off) and 2.16 A from HIS 46, with the
    # neighbouring residues and LYS 45; plus the free glutamate ligand (GLU A 274) if close
    rz = residues(os.path.join(SRC, '1FTJ-Chain-A.pdb'), 'A')
    with open(os.path.join(OUT, 'complex_ZN.pdb'), 'w') as fh:
        for k in seg(rz, (41, 42, 43, 44, 45, 46, 47)):
            for ln in rz[k]:
                if not ln[12:16].strip().startswith('H'):
                    fh.write(ln[:80].rstrip() + '\n')
        fh.write('TER   \n')
        for ln in open(os.path.join(SRC, '1FTJ-Chain-A.pdb')):
            if ln.startswith('HETATM') and ln[17:20].strip() == 'ZN':
                fh.write(ln[:80].rstrip() + '\n')
    # two copies of a ligand and two ions of one kind in ONE chain (labels of hetero groups carry no residue number, so the copies
    # share their labels): complex_MTX plus a translated copy of the methotrexate as MTX A 162 and a second chloride CL A 163,
    # placed by a deterministic search at least 3.5 A from every other atom and within 9 A of a protein group atom
    import itertools
    src = [l for l in open(os.path.join(OUT, 'complex_MTX.pdb')).read().split('\n') if l]
    atoms = [l for l in src if l[:6] in ('ATOM  ', 'HETATM')]
    P = lambda l: (float(l[30:38]), float(l[38:46]), float(l[46:54]))
    lig = [l for l in atoms if l[17:20] == 'MTX']
    ion = [l for l in atoms if l[17:20].strip() == 'CL']
    prot = [l for l in atoms if l.startswith('ATOM')]
    def place(moving, fixed, steps):
        for v in steps:
            pts = [tuple(c + d for c, d in zip(P(l), v)) for l in moving]
            dmin = min(math.dist(p, P(f)) for p in pts for f in fixed)
            dprot = min(math.dist(p, P(f)) for p in pts for f in prot)
            if dmin >= 3.5 and dprot <= 6.0:
                return v
        raise SystemExit('no placement found')
    grid = [(-12.0 + 1.5 * i, -12.0 + 1.5 * j, -12.0 + 1.5 * k) for i, j, k in itertools.product(range(17), repeat=3)]
    grid.sort(key=lambda v: (round(math.dist(v, (0, 0, 0)), 3), v))
    v1 = place(lig, atoms, grid)
    lig2 = [l[:22] + ' 162' + l[26:30] + '%8.3f%8.3f%8.3f' % tuple(round(c + d, 3) for c, d in zip(P(l), v1)) + l[54:] for l in lig]
    v2 = place(ion, atoms + lig2, grid)
    ion2 = [l[:22] + ' 163' + l[26:30] + '%8.3f%8.3f%8.3f' % tuple(round(c + d, 3) for c, d in zip(P(l), v2)) + l[54:] for l in ion]
    with open(os.path.join(OUT, 'complex_MTX2.pdb'), 'w') as fh:
        fh.write('\n'.join(src + lig2 + ion2) + '\n')
    # two chlorides of one chain (CL A 201, CL A 202: same label) both in contact with LYS 43 NZ of pair_LYS_ASP: positions 3.2 A from NZ
    # in the two grid directions that keep them farthest from every other atom
    src = [l for l in open(os.path.join(OUT, 'pair_LYS_ASP.pdb')).read().split('\n') if l]
    atoms = [l for l in src if l.startswith('ATOM')]
    nz = [P(l) for l in atoms if l[17:20] == 'LYS' and l[12:16].strip() == 'NZ'][0]
    dirs = []
    for v in itertools.product((-1, 0, 1), repeat=3):
        n = math.sqrt(sum(c * c for c in v))
        if n:
            pos = tuple(round(c + 3.2 * d / n, 3) for c, d in zip(nz, v))
            dirs.append((min(math.dist(pos, P(l)) for l in atoms if P(l) != nz), pos))
    dirs.sort(reverse=True)
    first = dirs[0][1]
    second = [d for d in dirs[1:] if math.dist(d[1], first) >= 3.5][0][1]
    with open(os.path.join(OUT, 'pair_LYS_ASP_2CL.pdb'), 'w') as fh:
        fh.write('\n'.join(src) + '\n')
        for i, pos in enumerate((first, second)):
            fh.write('HETATM %4d CL    CL A %3d    %8.3f%8.3f%8.3f  1.00  0.00          CL\n' % (900 + i, 201 + i, pos[0], pos[1], pos[2]))
    # residues E 109-114 of 3SGB: the program's own amide hydrogen of ILE 113 and HD21 of ASN 110 come out 1.42 A apart
    # (two hydrogens of different parents closer than the X-H bonding distance)
    cut(re_, seg(re_, (109, 110, 111, 112, 113, 114)), 'pep_close_hydrogens')
    # tri_ASP plus a synthetic methyl phosphate (ideal geometry: P-O 1.5 A to the three terminal oxygens, 1.6 A to the ester oxygen,
    # O-C 1.43 A) 9 A beside it: a phosphorus-containing ligand (none of the repository's test structures has one; PO4 itself is ignored)
    src = [l for l in open(os.path.join(OUT, 'tri_ASP.pdb')).read().split('\n') if l]
    org = (17.25, 3.5, 21.5)
    mpo = [('P', 'P1', (0.0, 0.0, 0.0)), ('O', 'O1', (0.866, 0.866, 0.866)), ('O', 'O2', (0.866, -0.866, -0.866)), ('O', 'O3', (-0.866, 0.866, -0.866)),
           ('O', 'O4', (-0.924, -0.924, 0.924)), ('C', 'C5', (-2.0, -1.3, 1.8))]
    with open(os.path.join(OUT, 'complex_MPO.pdb'), 'w') as fh:
        fh.write('\n'.join(src) + '\n')
        for i, (el, nm, d) in enumerate(mpo):
            fh.write('HETATM %4d  %-3s MPO A 300    %8.3f%8.3f%8.3f  1.00  0.00           %s\n' % (950 + i, nm, org[0] + d[0], org[1] + d[1], org[2] + d[2], el))
    # tri_CYS with a mercaptoethanol adduct on CYS 67 (a mixed disulfide: SG bonded to a sulfur that is not a cysteine SG):
    # S2 2.04 A from SG (CB-SG-S2 104 deg), then C2, C1, O1 continuing away from the peptide
    src = [l for l in open(os.path.join(OUT, 'tri_CYS.pdb')).read().split('\n') if l]
    atoms = [l for l in src if l.startswith('ATOM')]
    sg = [P(l) for l in atoms if l[12:16].strip() == 'SG'][0]
    d = (2.0 / 3, 2.0 / 3, -1.0 / 3)
    pos, here = [], sg
    for nm, el, step in (('S2', 'S', 2.04), ('C2', 'C', 1.82), ('C1', 'C', 1.52), ('O1', 'O', 1.43)):
        k = len(pos)
        dd = d if k % 2 == 0 else (2.0 / 3, -1.0 / 3, 2.0 / 3)      # zig-zag
        here = tuple(round(here[i] + step * dd[i], 3) for i in range(3))
        pos.append((nm, el, here))
    with open(os.path.join(OUT, 'complex_BME.pdb'), 'w') as fh:
        fh.write('\n'.join(src) + '\n')
        for i, (nm, el, q) in enumerate(pos):
            fh.write('HETATM %4d  %-3s BME A 301    %8.3f%8.3f%8.3f  1.00  0.00           %s\n' % (960 + i, nm, q[0], q[1], q[2], el))
    print(sorted(os.listdir(OUT)))


if __name__ == '__main__':
    main()
