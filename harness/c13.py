"""C13 -- selecting chains equals deleting the other chains from the file."""
import itertools

from symx import And, Or, Not, Implies, eq
from symx.runner import Obligation
from . import common as H
from . import pdbstream as PS

PROPERTY = 'C13'
META = {'assumptions': []}

KINDS_Q = ['N', 'CA', 'OXT', 'HETN', 'TER']
KINDS_T = ['N', 'CA', 'OXT', 'H', 'HETN', 'HOH', 'TER', 'MODEL']
SEL_Q = [('A',), (' ',), ('A', 'B'), ('A', 'B', ' ')]
SEL_T = [('A',), ('B',), (' ',), ('A', 'B'), ('A', ' '), ('B', ' '), ('A', 'B', ' ')]


def mk_selection(K, first, KINDS, SELECTIONS):
    def body(ctx):
        seq = [first]
        while len(seq) < K:
            seq.append(ctx.choice('kind%d' % len(seq), KINDS))
        sel = ctx.choice('selection', SELECTIONS)
        recs = PS.make_records(ctx, seq, altloc=False)
        with_option = PS.run_code(recs, chains=list(sel))
        kept = [r for r in recs if not (r.is_atom and not bool(PS._in_chars(r.chain, sel)))]
        deleted = PS.run_code(kept, chains=None)
        PS.compare(ctx, 'selection-equals-deletion', with_option, deleted)
        # and selecting every chain is the same as no option at all
        if len(sel) == 3:
            PS.compare(ctx, 'all-chains-equals-no-option', with_option, PS.run_code(recs, chains=None))
    return body


def o_plumbing(ctx):
    """-c is an append option, a blank chain can be given as " ", and read_pdb
    hands options.chains to the record reader unchanged"""
    import propka.lib as L
    import propka.input as I
    args = ctx.choice('args', [[], ['-c', 'A'], ['-c', ' '], ['-c', 'A', '-c', 'B'], ['--chain', 'B', '-c', ' '], ['-c', 'a'], ['-c', 'a', '-c', 'A'], ['-c', '1', '-c', 'b']])
    opts = L.loadOptions(args + ['x.pdb'])
    exp = [args[i + 1] for i in range(0, len(args), 2)] or None
    ctx.claim('parsed-chains', opts.chains == exp, detail='%r -> %r' % (args, opts.chains))
    seen = {}
    orig = I.get_atom_lines_from_pdb

    def spy(pdb_file, ignore_residues=(), keep_protons=False, tags=('ATOM  ', 'HETATM'), chains=None):
        seen['chains'] = chains
        seen['ignore'] = ignore_residues
        seen['keep'] = keep_protons
        return iter(())
    I.get_atom_lines_from_pdb = spy
    try:
        mol = H.molecule(options=opts)
        I.read_pdb(PS.Stream([]), H.params(), mol)
    finally:
        I.get_atom_lines_from_pdb = orig
    ctx.claim('passed-through', seen.get('chains') == exp and seen.get('keep') is False)
    ctx.claim('ignore-residues-from-cfg', list(seen.get('ignore')) == list(H.params().ignore_residues))


def o_pipeline_selection(ctx):
    """whole pipeline: two chains (TER between), the second one renamed to an upper-case letter, a lower-case letter, a
    digit or blank; selecting one chain / both by option gives what the file with the other chain's records deleted gives"""
    from . import micro as M
    src = M.text('pair_ASP_ASP')
    cid = ctx.choice('second_chain_id', ['B', 'a', '1', ' ', 'b'])
    txt = ''.join((l[:21] + cid + l[22:] + '\n') if (l[:4] == 'ATOM' and l[21] == 'B') else (l + '\n') for l in src.split('\n') if l)
    sel = ctx.choice('selected', ['first', 'second', 'both', 'both-reversed'])
    chains = {'first': ['A'], 'second': [cid], 'both': ['A', cid], 'both-reversed': [cid, 'A']}[sel]
    args = []
    for c in chains:
        args += ['-c', c]
    # together with a titrate-only list naming the aspartates of the selected chains (a blank chain is written '_' there)
    extra = []
    if ctx.choice('with_titrate_only', [False, True]):
        extra = ['-i', ','.join('%s:25' % (c if c != ' ' else '_') for c in chains)]
    with_option = M.run(txt, args=args + extra)
    kept = ''.join(l + '\n' for l in txt.split('\n') if l and not (l[:4] == 'ATOM' and l[21] not in chains))
    # a TER record left over from a deleted chain stays in the file, as it would when a user deletes the ATOM records
    deleted = M.run(kept, args=extra)

    def rec(mol):
        return sorted((g.type, g.atom.name, g.atom.res_num, g.atom.chain_id, round(g.pka_value, 9), round(g.energy_volume, 9),
                       tuple(sorted(round(d.value, 9) for k in g.determinants for d in g.determinants[k]))) for g in mol.conformations['AVR'].groups)
    ctx.claim('selection-equals-deletion(pipeline)', rec(with_option) == rec(deleted), detail='second chain %r, selected %r: %r vs %r' % (cid, chains, rec(with_option)[:3], rec(deleted)[:3]))
    ctx.claim('something-selected', len(rec(with_option)) > 0)
    import propka.output as O
    ta = O.get_determinant_section(with_option, 'AVR', with_option.version.parameters)
    tb = O.get_determinant_section(deleted, 'AVR', deleted.version.parameters)
    ctx.claim('selection-equals-deletion(written determinant section)', ta == tb, detail='%d vs %d lines' % (len(ta.split(chr(10))), len(tb.split(chr(10)))))
    ctx.claim('selection-equals-deletion(written summary)', O.get_summary_section(with_option, 'AVR', with_option.version.parameters) == O.get_summary_section(deleted, 'AVR', deleted.version.parameters))


def obligations(tier):
    I = 'propka/input.py:'
    K = 3 if tier == 'quick' else 4
    KINDS = KINDS_Q if tier == 'quick' else KINDS_T
    SELS = SEL_Q if tier == 'quick' else SEL_T
    obs = []
    for first in KINDS:
        obs.append(Obligation('O1-selection-equals-deletion[K=%d,first=%s]' % (K, first), mk_selection(K, first, KINDS, SELS),
                              code=[I + 'get_atom_lines_from_pdb', 'propka/atom.py:Atom.__init__'],
                              bounds='%d records (first %s, others any of %s), symbolic residue digit / insertion code / chain per record; '
                                     'selection one of %r' % (K, first, KINDS, SELS),
                              claim_doc='records, terminal tags and conformation names with chains=S == no option on the file without the other chains\' ATOM/HETATM records',
                              max_paths=400000, wall_s=170 if tier == 'quick' else 1500, shards=3 if tier == 'quick' else 2,
                              split_input=None if tier == 'quick' else ('kind1', len(KINDS))))
    obs.append(Obligation('O2-option-plumbing', o_plumbing, code=['propka/lib.py:build_parser', 'propka/lib.py:loadOptions', I + 'read_pdb'],
                          bounds='8 command lines (upper- and lower-case letters, digits, blank)', kind='table-check'))
    obs.append(Obligation('O3-pipeline-selection', o_pipeline_selection, code=['propka/run.py:single (whole pipeline)', 'propka/molecular_container.py:MolecularContainer.__init__', I + 'read_pdb', I + 'get_atom_lines_from_pdb'],
                          bounds='two-chain micro-structure, second chain identifier in {B, a, 1, blank, b}, selection first / second / both, with and without a titrate-only list naming residues of the selected chains (30 concrete runs against the files with the other chain deleted)', kind='table-check',
                          claim_doc='same groups, pKa values, desolvation and determinants'))
    from .c03 import mk_batch_inputs
    obs.append(Obligation('O4-selection-with-several-inputs', mk_batch_inputs(['pair_ASP_ASP', 'nterm_ASP_LYS', 'pep8'], [['-c', 'A'], ['-c', 'B', '-c', 'A']]),
                          code=['propka/run.py:main', I + 'read_molecule_file', I + 'read_pdb', I + 'get_atom_lines_from_pdb'],
                          bounds='3 x 3 ordered pairs of inputs (one with chains A and B, two with chain A only) in one invocation x 2 selections that match every input (18 concrete invocations)', kind='table-check',
                          claim_doc='the files written for the second input are those of the input run alone with the same selection (the selection is not used up by an earlier input)', max_paths=200))
    return obs


MANIFEST_ENTRY = {
    'level_note': ('Relational check on the real record reader: the same symbolic record stream is read with chains=S and, after deleting '
                   'the ATOM/HETATM records of other chains, with no option; everything downstream of the reader sees only the emitted '
                   'sequence, so equal sequences give equal results. K=3 records quick, K=4 thorough.'
                   ' O3: whole pipeline on a two-chain micro-structure with upper-/lower-case, digit and blank chain identifiers (15 concrete selections).'),
}
