"""C14 -- titrate_only restricts titration exactly to the listed residues."""
import argparse
import re

from symx import And, Or, Not, Implies, eq, le, ge, SStr, SInt, SBool
from symx.runner import Obligation
from . import common as H

PROPERTY = 'C14'
META = {'assumptions': [
    'strict grammar used as oracle for accepted strings: one non-colon chain character, ":", optional "-", digits, optional one letter; '
    'for every other string only the exception type is constrained (ValueError / ArgumentTypeError, nothing else)']}

ALPHABET = "AB :,-019x"
STRICT = re.compile(r'^([^:]):(-?[0-9]+)([A-Za-z]?)$')


def _strict_native(s):
    m = STRICT.match(s)
    if not m:
        return None
    return (m.group(1), int(m.group(2)), m.group(3) or ' ')


def mk_parse(length):
    def body(ctx):
        import z3
        import propka.lib as L
        s = ctx.string('s', length, ALPHABET) if length else ''
        try:
            r = L.parse_res_string(s)
            err = None
        except ValueError as e:
            r, err = None, 'ValueError'
        # exactly-one-colon is necessary
        if ctx.native or length == 0:
            ncolon = s.count(':')
            strict = _strict_native(s)
            ctx.claim('needs-exactly-one-colon', (err is None) <= (ncolon == 1))
            if strict is not None:
                ctx.claim('strict-strings-accepted', err is None)
                if err is None:
                    ctx.claim('parsed-triple', tuple(r) == strict, detail='%r -> %r, expected %r' % (s, r, strict))
            return
        ctx.claim('only-ValueError-is-ever-raised', True)
        els = s.el
        colons = [e == 58 for e in els]
        one_colon = z3.PbEq([(c, 1) for c in colons], 1)
        if err is None:
            ctx.claim('needs-exactly-one-colon', SBool(one_colon))
            ctx.claim('triple-shape', len(r) == 3)
        # strict grammar: C ':' '-'? D+ L?   (positions fixed by the length)
        for nd in range(1, length - 1):
            for neg in (0, 1):
                for let in (0, 1):
                    if 2 + neg + nd + let != length:
                        continue
                    conds = [els[0] != 58, els[1] == 58]
                    k = 2
                    if neg:
                        conds.append(els[k] == 45)
                        k += 1
                    val = z3.IntVal(0)
                    for _ in range(nd):
                        conds.append(z3.And(els[k] >= 48, els[k] <= 57))
                        val = val * 10 + (els[k] - 48)
                        k += 1
                    if let:
                        conds.append(z3.Or(z3.And(els[k] >= 65, els[k] <= 90), z3.And(els[k] >= 97, els[k] <= 122)))
                    strict = z3.And(*conds)
                    if err is not None:
                        ctx.claim('strict-strings-accepted', SBool(z3.Not(strict)))
                    else:
                        chain, num, ic = r

                        def F(x):
                            return x.e if isinstance(x, SBool) else z3.BoolVal(bool(x))
                        okf = z3.And(F(SStr((els[0],)) == chain),
                                     (num.e if isinstance(num, SInt) else z3.IntVal(num)) == (-val if neg else val),
                                     F((SStr((els[k],)) == ic) if let else (ic == ' ')))
                        ctx.claim('parsed-triple', SBool(z3.Implies(strict, okf)))
    return body


def o_parse_list(ctx):
    """parse_res_list: comma-separated, every element through
    parse_res_string, any failure -> ArgumentTypeError"""
    import propka.lib as L
    items = [ctx.choice('item%d' % i, ['A:10', 'B:-5', ' :7', 'A:10B', 'A10', 'A:x', '', 'A:1:2']) for i in range(2)]
    text = ','.join(items)
    good = {'A:10': ('A', 10, ' '), 'B:-5': ('B', -5, ' '), ' :7': (' ', 7, ' '), 'A:10B': ('A', 10, 'B')}
    try:
        r = L.parse_res_list(text)
        err = None
    except argparse.ArgumentTypeError:
        r, err = None, 'ArgumentTypeError'
    if all(i in good for i in items):
        ctx.claim('list-parsed', err is None and [tuple(x) for x in r] == [good[i] for i in items], detail='%r -> %r' % (text, r))
    else:
        ctx.claim('bad-element-rejected', err == 'ArgumentTypeError', detail='%r -> %r' % (text, r))


def o_init_group(ctx):
    """init_group + use_in_calculations: titratable afterwards <=> was
    titratable and (chain, number, insertion code) is listed"""
    import propka.group as G
    p = H.params()
    kind = ctx.choice('kind', ['ASP', 'CYS', 'CYS-bridged', 'BBN', 'LYS'])
    spec = {'ASP': (G.COOGroup, 'ASP', 'CG'), 'CYS': (G.CYSGroup, 'CYS', 'SG'), 'CYS-bridged': (G.CYSGroup, 'CYS', 'SG'),
            'BBN': (G.BBNGroup, 'ALA', 'N'), 'LYS': (G.LYSGroup, 'LYS', 'NZ')}[kind]
    a = H.atom(spec[2], spec[1], 10, 'A', 0.0, 0.0, 0.0)
    a.is_protonated = True
    if kind == 'CYS-bridged':
        a.cysteine_bridge = True
    chain = ctx.string('chain', 1, 'AB_')
    icode = ctx.string('icode', 1, ' AB')
    num = ctx.int('res_num', -999, 9999)
    if ctx.native:
        a.chain_id, a.icode, a.res_num = chain, icode, num
    else:
        a.chain_id, a.icode, a.res_num = chain, icode, num
    n = ctx.choice('list_length', [0, 1, 3])
    lst = []
    for i in range(n):
        lst.append((ctx.string('l%d_chain' % i, 1, 'AB_'), ctx.int('l%d_num' % i, -999, 9999), ctx.string('l%d_icode' % i, 1, ' AB')))
    use_option = ctx.choice('option_given', [True, False]) if n == 0 else True
    opts = H.Opts(titrate_only=lst if use_option else None)
    mol = H.molecule(p, opts)
    conf = H.conformation('1A', p=p, mol=mol)
    conf.add_atom(a)
    g = spec[0](a)
    conf.init_group(g)
    was = kind in ('ASP', 'CYS', 'LYS')
    listed = Or(*[And(c == chain, m == num, ic == icode) for (c, m, ic) in lst]) if lst else False
    if not use_option:
        ctx.claim('no-option:titratable-as-set-up', g.titratable == was)
        ctx.claim('no-option:cys-always-reported', (not kind.startswith('CYS')) or g.use_in_calculations())
        return
    if was:
        ctx.claim('titratable-iff-listed', listed if g.titratable else Not(listed),
                  detail='kind %s titratable=%r' % (kind, g.titratable))
    else:
        ctx.claim('never-made-titratable', g.titratable is False)
    # 'every other residue still acts as hydrogen-bond partner': whether listed or not, a side-chain group that is not in a
    # disulfide bridge stays among the interaction partners (and a backbone / bridged one never was)
    conf.groups = [g]
    partners = conf.get_sidechain_groups()
    ctx.claim('interaction-partner-whatever-the-list', (g in partners) == (kind in ('ASP', 'CYS', 'LYS')), detail='kind %s: in get_sidechain_groups = %r' % (kind, g in partners))
    rep = g.use_in_calculations()
    if kind == 'CYS-bridged':
        ctx.claim('bridged-cys-reported-iff-listed', listed if rep else Not(listed))
    elif was:
        ctx.claim('reported-iff-listed', listed if rep else Not(listed))
    else:
        ctx.claim('non-ionizable-never-reported', rep is False)


def o_option_plumbing(ctx):
    """--titrate_only reaches the calculation as given whatever else is on the command line: entries on chains that are
    not read are entries naming residues that do not exist (no effect), they do not switch the restriction off"""
    import propka.lib as L
    from . import micro as M
    case = ctx.choice('case', [(['-i', 'A:25'], [('A', 25, ' ')]), (['-c', 'A', '-i', 'B:25'], [('B', 25, ' ')]), (['-c', 'A', '-i', 'B:25,A:25'], [('B', 25, ' '), ('A', 25, ' ')]),
                               (['-c', 'B', '-i', 'A:25,A:24'], [('A', 25, ' '), ('A', 24, ' ')]), (['-i', 'Z:1'], [('Z', 1, ' ')])])
    args, want = case
    opts = L.loadOptions(args + ['x.pdb'])
    ctx.claim('list-as-given', list(opts.titrate_only) == want if opts.titrate_only is not None else False, detail='%r -> %r' % (args, opts.titrate_only))
    mol = M.run(M.text('pair_ASP_ASP'), args=args)
    rep = M.reported(mol)
    read = [args[args.index('-c') + 1]] if '-c' in args else ['A', 'B']
    expect = sorted('ASP  25 %s' % c for (c, n, i) in want if n == 25 and c in read)
    ctx.claim('reported-exactly-the-listed-groups-that-exist', sorted(rep) == expect, detail='%r: reported %r, expected %r' % (args, rep, expect))


SITES = {'pair_CYS_CYS_bridge': ['E:41', 'E:42', 'E:57', 'E:58'], 'pair_GLU_ARG_TYR': ['A:34', 'A:35', 'A:57', 'A:59'], 'pair_LYS_ASP': ['A:42', 'A:43', 'A:59', 'A:60'], 'pep8': ['A:25', 'A:29', 'A:30'],
         'tri_GLU$21': ['A:20', 'A:21'], 'tri_ASP$25': ['A:24', 'A:25']}


def mk_pipeline(name, max_shift=2509):
    def body(ctx):
        """whole pipeline with -i: listing every residue == no option; with a
        subset listed exactly the listed sites are reported, and the unlisted
        residues still desolvate and hydrogen-bond the listed ones; entries for
        residues that do not exist change nothing.  Structure under a symbolic shift."""
        from . import micro as M
        k = ctx.int('shift_thousandths', 0, max_shift)
        t = k / 1000.0 if ctx.native else k / 1000

        def tr(a):
            a.x = a.x + t
        sites = SITES[name]
        listed = [s_ for s_ in sites if ctx.choice('listed_' + s_, [True, False])]
        bogus = ctx.choice('nonexistent_entries', [[], ['A:999', 'Z:1', 'A:35X']])
        base = M.run(M.text(name), transform=tr)
        if not listed and not bogus:
            return
        opt = M.run(M.text(name), args=['-i', ','.join(listed + bogus)], transform=tr)
        gb, go = M.groups(base), M.groups(opt)
        ctx.claim('same-groups-extracted', sorted(gb) == sorted(go))
        want = {((x.split(':')[0], int(x.split(':')[1]))) for x in listed}
        rep = M.reported(opt)
        for lab in M.reported(base):
            num = int(lab[3:7])
            ctx.claim('reported-iff-listed', (rep.count(lab) == 1) == ((lab[8], num) in want), detail='%r listed=%r reported=%r' % (lab, sorted(want), rep))
        ctx.claim('nothing-else-reported', all(l in M.reported(base) for l in rep))
        # 'exactly the ionizable groups of the listed residues': what a listed residue has is read off the input, not off the
        # run without the option -- a listed residue that carries OXT has its C-terminus reported, the first residue its N-terminus
        recs = [l for l in M.text(name).split('\n') if l.startswith('ATOM')]
        for chain, num in sorted(want):
            if any(l[21] == chain and int(l[22:26]) == num and l[12:16].strip() == 'OXT' for l in recs):
                ctx.claim('c-terminus-of-a-listed-residue-reported', any(l.startswith('C-') and int(l[3:7]) == num and l[8] == chain for l in rep), detail='%s:%d: %r' % (chain, num, rep))
            if recs and recs[0][21] == chain and int(recs[0][22:26]) == num and recs[0][17:20] != 'PRO':
                ctx.claim('n-terminus-of-a-listed-residue-reported', any(l.startswith('N+') and int(l[3:7]) == num and l[8] == chain for l in rep), detail='%s:%d: %r' % (chain, num, rep))
        for key in gb:
            for a, b in zip(gb[key], go.get(key, [])):
                if b.titratable:
                    # a listed group keeps its whole desolvating environment (unlisted groups are not desolvated themselves: not scored)
                    ctx.claim('listed:desolvation-unchanged', And(eq(a.num_volume, b.num_volume), eq(a.buried, b.buried), eq(a.energy_volume, b.energy_volume)), detail=repr(key))
                    # hydrogen bonds to backbone and to non-ionizable partners are all still there
                    ctx.claim('listed:backbone-hbonds-unchanged',
                              [(d.label, round(float(d.value), 6)) if not hasattr(d.value, 'e') else d.label for d in a.determinants['backbone']] ==
                              [(d.label, round(float(d.value), 6)) if not hasattr(d.value, 'e') else d.label for d in b.determinants['backbone']], detail=repr(key))
                    pa = sorted(d.label for d in a.determinants['sidechain'])
                    pb = sorted(d.label for d in b.determinants['sidechain'])
                    ctx.claim('listed:sidechain-hbond-partners-kept', pa == pb, detail='%r: %r vs %r' % (key, pa, pb))
                elif a.titratable:
                    # 'every other residue still acts as hydrogen-bond partner': an unlisted residue keeps its hydrogen bonds to the
                    # other unlisted residues too (they set the state in which it meets the listed ones in the iterative scheme)
                    pa = sorted(d.label for d in a.determinants['sidechain'])
                    pb = sorted(d.label for d in b.determinants['sidechain'])
                    ctx.claim('unlisted:sidechain-hbond-partners-kept', pa == pb, detail='%r: %r vs %r' % (key, pa, pb))
        if len(listed) == len(sites) and False:
            pass
        if set(listed) == set(sites) and name != 'pep8':
            M.compare_results(ctx, 'all-listed-equals-no-option', base, opt)
    return body


def mk_pipeline_altloc(name, resnum, atom_name):
    def body(ctx):
        """a structure with two conformations (one atom has alternate locations A/B): listing every
        ionizable residue == no option, in every conformation and in the average"""
        from . import micro as M
        k = ctx.int('shift_thousandths', 0, 300)
        t = k / 1000.0 if ctx.native else k / 1000

        def tr(a):
            a.x = a.x + t
        txt = M.altloc(M.text(name), resnum, atom_name)
        sites = SITES[name]
        base = M.run(txt, transform=tr)
        opt = M.run(txt, args=['-i', ','.join(sites)], transform=tr)
        ctx.claim('two-conformations', len(base.conformation_names) == 2 and base.conformation_names == opt.conformation_names)
        for cname in list(base.conformation_names) + ['AVR']:
            gb = [g for g in base.conformations[cname].groups if g.titratable]
            go = [g for g in opt.conformations[cname].groups if g.titratable]
            ctx.claim('listed-residues-titratable-in-every-conformation', sorted(g.label for g in gb) == sorted(g.label for g in go),
                      detail='%s: %r vs %r' % (cname, sorted(g.label for g in gb), sorted(g.label for g in go)))
        rb = M.reported(base)
        ro = M.reported(opt)
        ctx.claim('same-sites-reported', sorted(rb) == sorted(ro), detail='%r vs %r' % (rb, ro))
    return body


def obligations(tier):
    Lb = 'propka/lib.py:'
    obs = []
    maxlen = 5 if tier == 'quick' else 6
    for n in range(0, maxlen + 1):
        obs.append(Obligation('O1-parse_res_string[len=%d]' % n, mk_parse(n), code=[Lb + 'parse_res_string'],
                              bounds='every string of length %d over %r' % (n, ALPHABET),
                              claim_doc='accepted => exactly one colon; strict "C:[-]digits[letter]" strings are accepted with the right triple; '
                                        'only ValueError is ever raised', max_paths=200000, wall_s=170 if tier == 'quick' else 1200,
                              shards=4 if n >= 5 else 1))
    obs.append(Obligation('O1-parse_res_list', o_parse_list, code=[Lb + 'parse_res_list', Lb + 'parse_res_string'],
                          bounds='2 comma-separated items from 8 representative strings', kind='table-check'))
    obs.append(Obligation('O2-init_group', o_init_group,
                          code=['propka/conformation_container.py:ConformationContainer.init_group', 'propka/group.py:Group.setup',
                                'propka/group.py:Group.use_in_calculations'],
                          bounds='group kind in {ASP, CYS, bridged CYS, backbone N, LYS}; symbolic chain / number in [-999,9999] / insertion code; '
                                 'list of 0, 1 or 3 symbolic triples; option absent or present',
                          claim_doc='titratable / reported afterwards <=> ionizable and the triple is listed', max_paths=100000, shards=4))
    obs.append(Obligation('O5-option-plumbing', o_option_plumbing, code=['propka/lib.py:loadOptions', 'propka/lib.py:parse_res_list', 'propka/run.py:single (whole pipeline)'],
                          bounds='5 command lines combining -i with -c (entries on read and unread chains) on the two-chain micro-structure', kind='table-check',
                          claim_doc='options.titrate_only is the parsed list; exactly the listed groups that exist in what was read are reported'))
    # ('tri_GLU$21': residue 21 made the C-terminus -- a residue with two groups of one type, side chain and terminus)
    for name in (['pair_GLU_ARG_TYR', 'pair_CYS_CYS_bridge', 'tri_GLU$21'] if tier == 'quick' else ['pair_GLU_ARG_TYR', 'pair_CYS_CYS_bridge', 'pair_LYS_ASP', 'pep8', 'tri_GLU$21', 'tri_ASP$25']):
        obs.append(Obligation('O3-pipeline[%s]' % name, mk_pipeline(name, 300 if tier == 'quick' else 2509),
                              code=['propka/run.py:single (whole pipeline)', 'propka/conformation_container.py:ConformationContainer.init_group', 'propka/energy.py:radial_volume_desolvation',
                                    'propka/determinants.py:set_determinants', 'propka/output.py:get_summary_section'],
                              bounds='micro-structure %s under a symbolic grid shift (0.3 A quick, 2.509 A thorough); every subset of its %d ionizable residues listed (fork), with and without entries for non-existent residues' % (name, len(SITES[name])),
                              claim_doc='reported <=> listed; desolvation, backbone H-bonds and side-chain H-bond partners of listed groups unchanged; all listed == no option',
                              max_paths=50000, shards=8, wall_s=170 if tier == 'quick' else 1200))
    for name, rn, an in ([('pair_GLU_ARG_TYR', 57, 'CZ')] if tier == 'quick' else [('pair_GLU_ARG_TYR', 57, 'CZ'), ('pair_GLU_ARG_TYR', 35, 'CD'), ('pair_LYS_ASP', 43, 'NZ')]):
        obs.append(Obligation('O4-pipeline-two-conformations[%s,%d %s]' % (name, rn, an), mk_pipeline_altloc(name, rn, an),
                              code=['propka/run.py:single (whole pipeline)', 'propka/molecular_container.py:MolecularContainer.top_up_conformations', 'propka/atom.py:Atom.make_copy',
                                    'propka/conformation_container.py:ConformationContainer.init_group'],
                              bounds='%s with alternate locations A/B for atom %s of residue %d (two conformations, topped up from each other), symbolic shift; all ionizable residues listed vs no option' % (name, an, rn),
                              claim_doc='the listed residues are titratable in every conformation and in the average; same sites reported as without the option', max_paths=5000, wall_s=170))
    return obs


MANIFEST_ENTRY = {
    'level_note': ('parse_res_string on symbolic strings up to length 5 (6 thorough) over a 10-character alphabet; init_group on a real group '
                   'whose chain, residue number and insertion code and the listed triples are symbolic. O3: whole pipeline on micro-structures with every subset of the ionizable residues listed: '
                   'unlisted residues still desolvate and hydrogen-bond the listed ones; listing all == no option.'),
}
