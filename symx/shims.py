"""symx.shims -- replacements for builtins / math that CPython evaluates in C.

Every shim falls through to the real builtin when no argument is symbolic, so
instrumented code behaves exactly like the original on concrete data.
"""
import builtins as _b
import math as _math

import z3

from . import core
from .core import SBool, SInt, SReal, Unsupported, cur, is_sym, lift_real
from . import sstr
from .sstr import SStr


class SxMath:
    """stand-in for the ``math`` module inside instrumented propka modules"""
    pi = _math.pi
    e = _math.e
    inf = _math.inf
    nan = _math.nan

    def __getattr__(self, name):
        return getattr(_math, name)

    @staticmethod
    def sqrt(x):
        if is_sym(x):
            return core.ssqrt(x)
        return _math.sqrt(x)

    @staticmethod
    def floor(x):
        if is_sym(x):
            return x.__floor__()
        return _math.floor(x)

    @staticmethod
    def ceil(x):
        if is_sym(x):
            return x.__ceil__()
        return _math.ceil(x)

    @staticmethod
    def pow(x, y):
        if is_sym(x) or is_sym(y):
            r = core.spow(x, y)
            return SReal(lift_real(r)) if isinstance(r, SInt) else r
        return _math.pow(x, y)

    @staticmethod
    def log10(x):
        if type(x).__name__ == 'Dual':
            return x.log10()
        if is_sym(x):
            if SBool(lift_real(x) <= 0):
                raise ValueError("math domain error")
            return cur().l10(lift_real(x))
        return _math.log10(x)

    @staticmethod
    def hypot(*xs):
        if any(is_sym(x) for x in xs):
            tot = 0
            for x in xs:
                tot = tot + x * x
            return core.ssqrt(tot)
        return _math.hypot(*xs)

    @staticmethod
    def copysign(a, b):
        if is_sym(a) or is_sym(b):
            mag = abs(a)
            if is_sym(b):
                # the sign of a symbolic real (a symbolic -0.0 does not exist in the exact-real model)
                return SReal(z3.If(lift_real(b) >= 0, lift_real(mag), -lift_real(mag)))
            return mag if _math.copysign(1.0, b) > 0 else -mag
        return _math.copysign(a, b)

    @staticmethod
    def atan2(y, x):
        if is_sym(y) or is_sym(x):
            r = core.ssqrt(x * x + y * y)
            return SAngle(y / r, x / r)
        return _math.atan2(y, x)

    @staticmethod
    def fabs(x):
        if is_sym(x):
            r = abs(x)
            return SReal(lift_real(r))
        return _math.fabs(x)

    @staticmethod
    def radians(x):
        if is_sym(x):
            raise Unsupported("radians of symbolic value")
        return _math.radians(x)

    @staticmethod
    def degrees(x):
        if is_sym(x) or isinstance(x, SAngle):
            raise Unsupported("degrees of symbolic value")
        return _math.degrees(x)

    @staticmethod
    def sin(x):
        if isinstance(x, SAngle):
            return x.s
        if is_sym(x):
            raise Unsupported("sin of symbolic real (use SAngle)")
        ex = _exact_trig(x)
        if ex is not None:
            return ex[0]
        return _math.sin(x)

    @staticmethod
    def cos(x):
        if isinstance(x, SAngle):
            return x.c
        if is_sym(x):
            raise Unsupported("cos of symbolic real (use SAngle)")
        ex = _exact_trig(x)
        if ex is not None:
            return ex[1]
        return _math.cos(x)

    @staticmethod
    def asin(t):
        if is_sym(t):
            # principal value: sin = t, cos = +sqrt(1 - t^2); domain error fork
            if SBool(z3.Or(lift_real(t) > 1, lift_real(t) < -1)):
                raise ValueError("math domain error")
            return SAngle(t, core.ssqrt(1 - t * t))
        return _math.asin(t)

    @staticmethod
    def acos(t):
        if is_sym(t):
            if SBool(z3.Or(lift_real(t) > 1, lift_real(t) < -1)):
                raise ValueError("math domain error")
            return SAngle(core.ssqrt(1 - t * t), t)
        return _math.acos(t)


def _exact_trig(x):
    """exact (sin, cos) for the literal angles the code uses, when a symbolic
    context is active (so that cos(pi/2) is 0, not 6e-17, in the exact-real
    model).  Outside a symbolic context: None (native floats)."""
    if core.CUR is None or not core.CUR.notes.get('exact_trig', False):
        return None
    for k, sc in ((0, (0, 1)), (1, (1, 0)), (2, (0, -1)), (-1, (-1, 0)), (-2, (0, -1))):
        if x == k * _math.pi / 2 or x == k * (_math.pi / 2.0):
            return sc
    if x == _math.radians(120.0):
        return (core.ssqrt(core.SReal(core.rv(core.Fraction(3, 4)))), core.Fraction(-1, 2))
    if x == -_math.radians(120.0):
        return (-core.ssqrt(core.SReal(core.rv(core.Fraction(3, 4)))), core.Fraction(-1, 2))
    return None


class SAngle:
    """an angle known through (sin, cos); closed under negation and
    multiplication by a symbolic +-1; enough for rotate_vector_around_an_axis.
    It also knows how many whole turns k it is away from its principal value
    phi (value = phi + 2*k*pi, phi in (-pi, pi], or [-pi, pi) after a
    negation), so that code which compares the angle itself with 0 or +-pi
    (theta < 0, theta > math.pi) is decided from the signs of sin and cos --
    no extra solver variables."""
    __slots__ = ('s', 'c', 'k', 'low_closed')

    def __init__(self, s, c, k=0, low_closed=False):
        self.s = s
        self.c = c
        self.k = k
        self.low_closed = low_closed

    @staticmethod
    def symbolic(ctx, name, turns=None):
        s = ctx.real(name + '_sin', -1, 1)
        c = ctx.real(name + '_cos', -1, 1)
        ctx.assume(lift_real(s) * lift_real(s) + lift_real(c) * lift_real(c) == 1)
        k = 0
        if turns is not None:
            k = ctx.choice(name + '_turns', list(turns))
        return SAngle(s, c, k)

    @staticmethod
    def of_float(x):
        # exact values for the multiples of pi/2 that the code uses literally
        for k, (s, c) in {0: (0, 1), 1: (1, 0), 2: (0, -1), -1: (-1, 0), -2: (0, -1)}.items():
            if x == k * _math.pi / 2:
                return SAngle(s, c, 0, low_closed=(k == -2))
        return None

    def __neg__(self):
        return SAngle(-self.s, self.c, -self.k, not self.low_closed)

    def __mul__(self, k):
        # k is +-1 (possibly symbolic): fork on its sign
        if is_sym(k):
            if k == 1:
                return self
            if k == -1:
                return -self
            raise Unsupported("SAngle * symbolic factor other than +-1")
        if k == 1:
            return self
        if k == -1:
            return -self
        raise Unsupported("SAngle * %r" % (k,))
    __rmul__ = __mul__

    # -- comparisons of the numeric value with 0 and +-pi --------------------------------------------
    def _half_turn(self):
        """the principal value is the half turn (pi, or -pi when the interval is closed below)"""
        return z3.And(lift_real(self.s) == 0, lift_real(self.c) < 0)

    def _lt(self, x):
        """value < x for x in {0, pi, -pi} as a z3 Bool"""
        S = lift_real(self.s)
        T, F = z3.BoolVal(True), z3.BoolVal(False)
        half = self._half_turn()
        if x == 0:
            if self.k > 0:
                return F          # phi + 2k*pi > -pi + 2*pi > 0
            if self.k < 0:
                return T          # phi - 2|k|*pi <= pi - 2*pi < 0
            return z3.Or(S < 0, z3.And(half, z3.BoolVal(self.low_closed)))
        if x == _math.pi:
            # value = phi + 2k*pi < pi
            if self.k > 0:
                return F
            if self.k < 0:
                return T
            return z3.Not(z3.And(half, z3.BoolVal(not self.low_closed)))
        if x == -_math.pi:
            if self.k > 0:
                return F
            if self.k < 0:
                # phi - 2pi < -pi  <=>  phi < pi
                return z3.Not(z3.And(half, z3.BoolVal(not self.low_closed))) if self.k == -1 else T
            return F
        raise Unsupported("comparison of an SAngle with %r (only 0 and +-pi are modelled)" % (x,))

    def _eq(self, x):
        S, C = lift_real(self.s), lift_real(self.c)
        F = z3.BoolVal(False)
        half = self._half_turn()
        if x == 0:
            return z3.And(S == 0, C > 0) if self.k == 0 else F
        if x == _math.pi:
            if self.k == 0:
                return z3.And(half, z3.BoolVal(not self.low_closed))
            if self.k == 1:
                return z3.And(half, z3.BoolVal(self.low_closed))
            return F
        if x == -_math.pi:
            if self.k == 0:
                return z3.And(half, z3.BoolVal(self.low_closed))
            if self.k == -1:
                return z3.And(half, z3.BoolVal(not self.low_closed))
            return F
        raise Unsupported("comparison of an SAngle with %r (only 0 and +-pi are modelled)" % (x,))

    def _num(self, o):
        if isinstance(o, SAngle) or is_sym(o):
            raise Unsupported("comparison of an SAngle with a symbolic value")
        return o

    def __lt__(self, o):
        return SBool(self._lt(self._num(o)))

    def __le__(self, o):
        o = self._num(o)
        return SBool(z3.Or(self._lt(o), self._eq(o)))

    def __gt__(self, o):
        o = self._num(o)
        return SBool(z3.Not(z3.Or(self._lt(o), self._eq(o))))

    def __ge__(self, o):
        return SBool(z3.Not(self._lt(self._num(o))))

    def __eq__(self, o):
        if isinstance(o, (int, float)):
            return SBool(self._eq(o))
        raise Unsupported("equality of SAngle with %r" % (o,))

    def __ne__(self, o):
        if isinstance(o, (int, float)):
            return SBool(z3.Not(self._eq(o)))
        raise Unsupported("equality of SAngle with %r" % (o,))
    # hashable by identity (an angle object can be a cache key: the same object is the same angle)
    __hash__ = object.__hash__


def _any_sym(args):
    for a in args:
        if isinstance(a, (SReal, SBool, SStr)):
            return True
    return False


def sx_int(*args, **kw):
    if not args:
        return 0
    x = args[0]
    if isinstance(x, SStr):
        base = args[1] if len(args) > 1 else kw.get('base', 10)
        return sstr.sx_int_of_str(x, base)
    if isinstance(x, SInt):
        return x
    if isinstance(x, SReal):
        return core.strunc(x)
    if isinstance(x, SBool):
        return SInt(z3.If(x.e, 1, 0))
    if type(x).__name__ == 'SFloat64':
        # truncation toward zero of a double; the value is concretised by forks
        bv = z3.fpToSBV(z3.RTZ(), x.e, z3.BitVecSort(32))
        return cur().concretize_int(bv, 'int(float64)', cap=8)
    return _b.int(*args, **kw)


def sx_float(*args):
    if not args:
        return 0.0
    x = args[0]
    if isinstance(x, SInt):
        return SReal(lift_real(x))
    if isinstance(x, SReal):
        return x
    if isinstance(x, SStr):
        return sstr.sx_float_of_str(x)
    return _b.float(x)


def sx_round(x, n=None):
    if is_sym(x):
        return core.sround(x, n)
    return _b.round(x, n) if n is not None else _b.round(x)


def sx_abs(x):
    return _b.abs(x)


def _minmax(args, kw, ismax):
    key = kw.get('key')
    if len(args) == 1:
        items = list(args[0])
        if not items:
            if 'default' in kw:
                return kw['default']
            raise ValueError("arg is an empty sequence")
    else:
        items = list(args)
    numeric = key is None and all(isinstance(a, (int, float, core.Fraction, SReal)) for a in items)
    if numeric and any(is_sym(a) for a in items):
        # If-term, python tie semantics (first extremal element wins)
        r = items[0]
        for b in items[1:]:
            cond = (lift_real(b) > lift_real(r)) if ismax else (lift_real(b) < lift_real(r))
            if isinstance(r, SInt) and isinstance(b, (SInt,)) :
                r = SInt(z3.If(cond, b.e, r.e))
            else:
                r = SReal(z3.If(cond, lift_real(b), lift_real(r)))
        return r
    # generic: python's algorithm with (possibly forking) comparisons
    best = items[0]
    bk = key(best) if key else best
    for it in items[1:]:
        k = key(it) if key else it
        better = (k > bk) if ismax else (k < bk)
        if better:
            best, bk = it, k
    return best


def sx_max(*args, **kw):
    return _minmax(args, kw, True)


def sx_min(*args, **kw):
    return _minmax(args, kw, False)


def sx_len(x):
    return _b.len(x)


def sx_str(*args, **kw):
    if not args:
        return ''
    x = args[0]
    if isinstance(x, SStr):
        return x
    if isinstance(x, SInt):
        return sstr.mk(sstr.render_int(x))
    if isinstance(x, SReal):
        return cur().format_hook(x, 'str')
    if len(args) == 1 and not kw and type(x).__module__.startswith('propka'):
        # instrumented __str__ may build a symbolic string
        return type(x).__str__(x)
    return _b.str(*args, **kw)


def sx_ord(c):
    if isinstance(c, SStr):
        if len(c) != 1:
            raise TypeError("ord() expected a character")
        return SInt(c.el[0])
    return _b.ord(c)


def sx_chr(i):
    if isinstance(i, SInt):
        return SStr((i.e,))
    return _b.chr(i)


_REAL = {'int': _b.int, 'float': _b.float, 'str': _b.str, 'bool': _b.bool}


def sx_isinstance(obj, cls):
    if isinstance(obj, (SReal, SStr, SBool)):
        classes = cls if isinstance(cls, tuple) else (cls,)
        for c in classes:
            if isinstance(c, tuple):
                if sx_isinstance(obj, c):
                    return True
                continue
            if c is _b.int and isinstance(obj, SInt):
                return True
            if c is _b.float and isinstance(obj, SReal) and not isinstance(obj, SInt):
                return True
            if c is _b.str and isinstance(obj, SStr):
                return True
            if c is _b.bool and isinstance(obj, SBool):
                return True
            if c is object:
                return True
        return _b.isinstance(obj, cls)
    return _b.isinstance(obj, cls)


def sx_contains(container, item, negate=False):
    r = _contains(container, item)
    if negate:
        if isinstance(r, SBool):
            return SBool(z3.Not(r.e))
        return not r
    return r


def _eq_formula(a, b):
    """formula (z3 Bool or python bool) for a == b"""
    if isinstance(a, SStr) or isinstance(b, SStr):
        if isinstance(a, SStr):
            return a._eqf(b)
        return b._eqf(a)
    if is_sym(a) or is_sym(b):
        r = (a == b)
        if isinstance(r, SBool):
            return r.e
        return r
    if isinstance(a, tuple) and isinstance(b, tuple) and len(a) == len(b):
        fs = [_eq_formula(x, y) for x, y in zip(a, b)]
        return sstr.z3and(fs)
    r = (a == b)
    if isinstance(r, SBool):
        return r.e
    return bool(r)


def _has_sym(x):
    if isinstance(x, (SReal, SStr, SBool)):
        return True
    if isinstance(x, tuple):
        return any(_has_sym(y) for y in x)
    return False


def _contains(container, item):
    if isinstance(container, (str, SStr)) and isinstance(item, (str, SStr)):
        if isinstance(container, str) and isinstance(item, str):
            return item in container
        ce, ie = sstr.as_els(container), sstr.as_els(item)
        if len(ie) == 0:
            return True
        if len(ie) > len(ce):
            return False
        alts = []
        for i in range(len(ce) - len(ie) + 1):
            alts.append(sstr.z3and([sstr.el_eq(a, b) for a, b in zip(ce[i:i + len(ie)], ie)]))
        f = sstr.z3or(alts)
        return SBool(f) if not isinstance(f, bool) else f
    if isinstance(container, (list, tuple, set, frozenset, dict)) or type(container).__name__ in ('dict_keys', 'dict_values'):
        items = list(container)
        if _has_sym(item) or any(_has_sym(x) for x in items):
            # identity shortcut as python does
            fs = []
            for x in items:
                if x is item:
                    return True
                fs.append(_eq_formula(x, item))
            f = sstr.z3or(fs)
            if isinstance(f, bool):
                return f
            f = z3.simplify(f)
            if z3.is_true(f):
                return True
            if z3.is_false(f):
                return False
            return SBool(f)
    return item in container


def sx_getitem_dict(d, key):
    return d[key]


def sx_set(*args):
    return cur().make_set(*args) if hasattr(cur(), 'make_set') and cur().notes.get('set_shim') else _b.set(*args)


BUILTIN_SHIMS = {
    'int': sx_int, 'float': sx_float, 'round': sx_round, 'max': sx_max,
    'min': sx_min, 'str': sx_str, 'ord': sx_ord, 'chr': sx_chr,
    'isinstance': sx_isinstance,
}


# -- decimal.Decimal ---------------------------------------------------------------

import decimal as _decimal


class SDec:
    """exact decimal arithmetic on a symbolic real (decimal.Decimal stand-in):
    round() = nearest multiple (ties: see core.sround), % = remainder with the
    sign of the dividend, comparisons exact"""
    __slots__ = ('x',)

    def __init__(self, x):
        self.x = x

    @staticmethod
    def _v(o):
        if isinstance(o, SDec):
            return o.x
        if isinstance(o, _decimal.Decimal):
            return core.Fraction(o)
        return o

    def __round__(self, n=None):
        return SDec(core.sround(self.x, n))

    def __mod__(self, o):
        b = SDec._v(o)
        if is_sym(b):
            raise Unsupported("Decimal % symbolic modulus")
        b = core.Fraction(b) if not isinstance(b, core.Fraction) else b
        if b == 0:
            raise _decimal.InvalidOperation
        ab = abs(b)
        q = core.strunc(self.x / ab)          # truncation toward zero
        return SDec(self.x - q * ab)

    def __sub__(self, o):
        return SDec(self.x - SDec._v(o))

    def __add__(self, o):
        return SDec(self.x + SDec._v(o))
    __radd__ = __add__

    def __rsub__(self, o):
        # concrete Decimal - symbolic decimal
        return SDec(SDec._v(o) - self.x)

    def __lt__(self, o):
        return self.x < SDec._v(o)

    def __le__(self, o):
        return self.x <= SDec._v(o)

    def __gt__(self, o):
        return self.x > SDec._v(o)

    def __ge__(self, o):
        return self.x >= SDec._v(o)

    def __eq__(self, o):
        return self.x == SDec._v(o)
    __hash__ = None

    def __format__(self, spec):
        return cur().format_hook(self.x, spec)


def sx_Decimal(x=0, *a):
    if isinstance(x, SDec):
        return x
    if is_sym(x):
        return SDec(x)
    return _decimal.Decimal(x, *a)
