"""symx.sstr -- symbolic strings of concrete length.

An SStr is a tuple of elements; each element is a python int (concrete code
point) or a z3 Int term (symbolic code point).  All operations that would
change the *length* depending on symbolic content (strip, split) fork.
"""
import string as _string

import z3

from . import core
from .core import SBool, SInt, SReal, Unsupported, cur

# whitespace recognised by str.strip()/int() within the supported alphabet
# (ASCII plus Latin-1 NEL/NBSP).  Harness alphabets stay inside ASCII + one
# non-ASCII decimal digit block, see int model below.
_WS = (9, 10, 11, 12, 13, 28, 29, 30, 31, 32, 0x85, 0xa0)
# decimal-digit blocks modelled for int(): ASCII and ARABIC-INDIC
_DIGIT_BLOCKS = (48, 0x660)


def _is_sym_el(e):
    return not isinstance(e, int)


def el_eq(a, b):
    """z3 Bool / python bool for equality of two elements"""
    if isinstance(a, int) and isinstance(b, int):
        return a == b
    return (a if not isinstance(a, int) else z3.IntVal(a)) == (b if not isinstance(b, int) else z3.IntVal(b))


def z3and(xs):
    xs = [x for x in xs if x is not True]
    if any(x is False for x in xs):
        return z3.BoolVal(False)
    if not xs:
        return z3.BoolVal(True)
    return z3.And(*xs) if len(xs) > 1 else xs[0]


def z3or(xs):
    xs = [x for x in xs if x is not False]
    if any(x is True for x in xs):
        return z3.BoolVal(True)
    if not xs:
        return z3.BoolVal(False)
    return z3.Or(*xs) if len(xs) > 1 else xs[0]


def as_els(s):
    if isinstance(s, SStr):
        return s.el
    if isinstance(s, str):
        return tuple(ord(c) for c in s)
    raise TypeError(type(s))


def mk(els):
    """SStr or plain str when fully concrete"""
    els = tuple(els)
    if all(isinstance(e, int) for e in els):
        return ''.join(chr(e) for e in els)
    return SStr(els)


def is_space_f(e):
    if isinstance(e, int):
        return e in _WS
    return z3or([e == w for w in _WS])


class SStr:
    __slots__ = ('el',)

    def __init__(self, els):
        self.el = tuple(els)

    @staticmethod
    def symbolic(ctx, name, length, alphabet):
        """fresh symbolic string of fixed length over an alphabet (str)"""
        els = []
        codes = sorted(set(ord(c) for c in alphabet))
        for i in range(length):
            v = z3.Int('%s_%d' % (name, i))
            ctx.inputs['%s_%d' % (name, i)] = v
            ctx.input_meta['%s_%d' % (name, i)] = ('char', alphabet)
            ctx.assume(z3or([v == c for c in codes]))
            els.append(v)
        return SStr(els)

    def __len__(self):
        return len(self.el)

    def __iter__(self):
        for e in self.el:
            yield mk((e,))

    def __getitem__(self, i):
        if isinstance(i, slice):
            return mk(self.el[i])
        if isinstance(i, SInt):
            i = i.__index__()
        return mk((self.el[i],))

    def __add__(self, o):
        if isinstance(o, (str, SStr)):
            return mk(self.el + as_els(o))
        return NotImplemented

    def __radd__(self, o):
        if isinstance(o, (str, SStr)):
            return mk(as_els(o) + self.el)
        return NotImplemented

    def __mul__(self, n):
        return mk(self.el * n)

    def _eqf(self, o):
        if not isinstance(o, (str, SStr)):
            return False
        oe = as_els(o)
        if len(oe) != len(self.el):
            return False
        return z3and([el_eq(a, b) for a, b in zip(self.el, oe)])

    def __eq__(self, o):
        f = self._eqf(o)
        if f is False:
            return False
        return SBool(f)

    def __ne__(self, o):
        f = self._eqf(o)
        if f is False:
            return True
        return SBool(z3.Not(f))

    def __hash__(self):
        return hash(self.concretize())

    def concretize(self):
        """fork on every symbolic character -> python str"""
        out = []
        for e in self.el:
            if isinstance(e, int):
                out.append(chr(e))
            else:
                out.append(chr(cur().concretize_int(e, 'char', cap=200)))
        return ''.join(out)

    def __str__(self):
        return self.concretize()

    def __repr__(self):
        return 'SStr(%s)' % (','.join(chr(e) if isinstance(e, int) else '?' for e in self.el))

    def __format__(self, spec):
        return format(self.concretize(), spec)

    def __lt__(self, o):
        return lex_lt(self, o)

    def __gt__(self, o):
        return lex_lt(o, self)

    def __le__(self, o):
        return core.Not(lex_lt(o, self))

    def __ge__(self, o):
        return core.Not(lex_lt(self, o))

    # -- methods
    def strip(self, chars=None):
        return self.lstrip(chars).rstrip(chars)

    def _strip_pred(self, chars):
        if chars is None:
            return is_space_f
        codes = [ord(c) for c in chars]
        return lambda e: (e in codes) if isinstance(e, int) else z3or([e == c for c in codes])

    def lstrip(self, chars=None):
        pred = self._strip_pred(chars)
        i = 0
        n = len(self.el)
        while i < n and _truth(pred(self.el[i])):
            i += 1
        return mk(self.el[i:])

    def rstrip(self, chars=None):
        pred = self._strip_pred(chars)
        n = len(self.el)
        while n > 0 and _truth(pred(self.el[n - 1])):
            n -= 1
        return mk(self.el[:n])

    def startswith(self, p):
        pe = as_els(p)
        if len(pe) > len(self.el):
            return False
        return SBool(z3and([el_eq(a, b) for a, b in zip(self.el, pe)]))

    def endswith(self, p):
        pe = as_els(p)
        if len(pe) > len(self.el):
            return False
        if not pe:
            return True
        return SBool(z3and([el_eq(a, b) for a, b in zip(self.el[-len(pe):], pe)]))

    def split(self, sep=None, maxsplit=-1):
        if sep is None:
            # whitespace split
            parts, curp = [], []
            for e in self.el:
                if _truth(is_space_f(e)):
                    if curp:
                        parts.append(mk(curp))
                        curp = []
                else:
                    curp.append(e)
            if curp:
                parts.append(mk(curp))
            return parts
        se = as_els(sep)
        if len(se) != 1:
            raise Unsupported("split on multi-char separator")
        parts, curp = [], []
        for e in self.el:
            if (maxsplit < 0 or len(parts) < maxsplit) and _truth(el_eq(e, se[0])):
                parts.append(mk(curp))
                curp = []
            else:
                curp.append(e)
        parts.append(mk(curp))
        return parts

    def lower(self):
        return mk([(e + 32 if 65 <= e <= 90 else e) if isinstance(e, int)
                   else z3.If(z3.And(e >= 65, e <= 90), e + 32, e) for e in self.el])

    def upper(self):
        return mk([(e - 32 if 97 <= e <= 122 else e) if isinstance(e, int)
                   else z3.If(z3.And(e >= 97, e <= 122), e - 32, e) for e in self.el])

    def replace(self, old, new):
        oe, ne = as_els(old), as_els(new)
        if len(oe) != 1:
            raise Unsupported("replace of multi-char pattern")
        out = []
        for e in self.el:
            if _truth(el_eq(e, oe[0])):
                out.extend(ne)
            else:
                out.append(e)
        return mk(out)

    def count(self, sub):
        se = as_els(sub)
        if len(se) != 1:
            raise Unsupported("count of multi-char pattern")
        n = 0
        for e in self.el:
            if _truth(el_eq(e, se[0])):
                n += 1
        return n

    def isdigit(self):
        if not self.el:
            return False
        return SBool(z3and([digit_f(e) for e in self.el]))

    def format(self, *a, **k):
        return str.format(self.concretize(), *a, **k)

    def encode(self, *a):
        return self.concretize().encode(*a)


def _truth(f):
    if isinstance(f, bool):
        return f
    return cur().branch(f)


def digit_f(e):
    if isinstance(e, int):
        return any(b <= e <= b + 9 for b in _DIGIT_BLOCKS)
    return z3or([z3.And(e >= b, e <= b + 9) for b in _DIGIT_BLOCKS])


def lex_lt(a, b):
    ae, be = as_els(a), as_els(b)
    # a < b lexicographically
    res = z3.BoolVal(len(ae) < len(be))
    for x, y in reversed(list(zip(ae, be))):
        xe = x if not isinstance(x, int) else z3.IntVal(x)
        ye = y if not isinstance(y, int) else z3.IntVal(y)
        res = z3.If(xe < ye, z3.BoolVal(True), z3.If(xe > ye, z3.BoolVal(False), res))
    return SBool(res)


# --------------------------------------------------------------------------
# int(str) model
# --------------------------------------------------------------------------

def digit_value_f(e, base):
    """(is_digit_formula, value_term) for one element in a given base"""
    ee = e if not isinstance(e, int) else z3.IntVal(e)
    conds = []
    val = z3.IntVal(0)
    # ASCII 0-9
    if base >= 10:
        hi = 57
    else:
        hi = 48 + base - 1
    c0 = z3.And(ee >= 48, ee <= hi)
    conds.append(c0)
    val = z3.If(c0, ee - 48, val)
    # other decimal blocks (unicode Nd) count as digits 0-9
    for b in _DIGIT_BLOCKS[1:]:
        top = b + min(9, base - 1)
        cb = z3.And(ee >= b, ee <= top)
        conds.append(cb)
        val = z3.If(cb, ee - b, val)
    if base > 10:
        cl = z3.And(ee >= 97, ee <= 97 + base - 11)
        cu = z3.And(ee >= 65, ee <= 65 + base - 11)
        conds += [cl, cu]
        val = z3.If(cl, ee - 87, z3.If(cu, ee - 55, val))
    return z3.Or(*conds), val


def int_parse_model(els, base=10):
    """CPython int(str, base) for base in {10, 36} as (valid, value) z3 terms.

    Automaton over the characters: 0 leading whitespace, 1 after sign,
    2 after digit, 3 after underscore, 4 trailing whitespace, 5 invalid."""
    if base not in (10, 36):
        raise Unsupported("int() base %r" % (base,))
    st = z3.IntVal(0)
    acc = z3.IntVal(0)
    neg = z3.BoolVal(False)
    for e in els:
        ee = e if not isinstance(e, int) else z3.IntVal(e)
        isd, dv = digit_value_f(e, base)
        sp = is_space_f(e)
        sp = z3.BoolVal(sp) if isinstance(sp, bool) else sp
        sign = z3.Or(ee == 43, ee == 45)
        us = ee == 95
        nst = z3.If(st == 0,
                    z3.If(sp, 0, z3.If(sign, 1, z3.If(isd, 2, 5))),
              z3.If(st == 1,
                    z3.If(isd, 2, 5),
              z3.If(st == 2,
                    z3.If(isd, 2, z3.If(us, 3, z3.If(sp, 4, 5))),
              z3.If(st == 3,
                    z3.If(isd, 2, 5),
              z3.If(st == 4,
                    z3.If(sp, 4, 5),
                    5)))))
        takes = z3.And(isd, z3.Or(st == 0, st == 1, st == 2, st == 3))
        acc = z3.If(takes, acc * base + dv, acc)
        neg = z3.If(z3.And(st == 0, ee == 45), z3.BoolVal(True), neg)
        st = nst
    valid = z3.Or(st == 2, st == 4)
    value = z3.If(neg, -acc, acc)
    return z3.simplify(valid), value


def sx_int_of_str(s, base=10):
    els = as_els(s)
    valid, value = int_parse_model(els, base)
    if not _truth(valid):
        raise ValueError("invalid literal for int() with base %d: %r" % (base, s))
    return SInt(value)


def sx_float_of_str(s):
    """float() of a string with symbolic characters, for fixed-point decimal literals: [blanks][sign]digits[.digits][blanks].
    Every character is classified by a fork (sign / point / ASCII digit / anything else -> ValueError); the value is the
    exact decimal value (exact-real model: the nearest double is not taken).  Exponents, underscores, inf/nan and
    non-ASCII digits are not modelled: a character that could be one of those is Unsupported."""
    t = s.strip() if isinstance(s, SStr) else s.strip()
    if isinstance(t, str):
        return float(t)
    els = t.el
    if not els:
        raise ValueError("could not convert string to float: ''")
    sign = 1
    i = 0
    if _truth(el_eq(els[0], 45)):
        sign, i = -1, 1
    elif _truth(el_eq(els[0], 43)):
        i = 1
    int_digits, frac_digits, seen_point = [], [], False
    for e in els[i:]:
        if _truth(el_eq(e, 46)):
            if seen_point:
                raise ValueError("could not convert string to float (two points)")
            seen_point = True
            continue
        isdig = (48 <= e <= 57) if isinstance(e, int) else z3.And(e >= 48, e <= 57)
        if not _truth(isdig):
            if isinstance(e, int) and chr(e) in 'eE_infaINFAtyTY':
                raise Unsupported("float() literal with %r" % chr(e))
            raise ValueError("could not convert string to float")
        (frac_digits if seen_point else int_digits).append(e)
    if not int_digits and not frac_digits:
        raise ValueError("could not convert string to float")
    val = z3.RealVal(0)
    for e in int_digits:
        val = val * 10 + (z3.ToReal(e - 48) if not isinstance(e, int) else z3.RealVal(e - 48))
    scale = 1
    for e in frac_digits:
        scale *= 10
        val = val + (z3.ToReal(e - 48) if not isinstance(e, int) else z3.RealVal(e - 48)) / scale
    return core.SReal(val * sign if sign == -1 else val)


# --------------------------------------------------------------------------
# rendering of symbolic ints
# --------------------------------------------------------------------------

def render_int(n, max_digits=9):
    """decimal rendering of an SInt as element list (forks on length class)"""
    e = n.e
    neg = _truth(e < 0)
    a = -e if neg else e
    d = 1
    while d < max_digits and not _truth(a < 10 ** d):
        d += 1
    if d == max_digits and not _truth(a < 10 ** d):
        raise Unsupported("symbolic int rendering beyond %d digits" % max_digits)
    els = [45] if neg else []
    for i in range(d):
        p = 10 ** (d - 1 - i)
        els.append((a / p) % 10 + 48)
    return els


def pad(els, width, align, fill=32):
    n = len(els)
    if width is None or n >= width:
        return list(els)
    k = width - n
    if align == '<':
        return list(els) + [fill] * k
    if align == '^':
        return [fill] * (k // 2) + list(els) + [fill] * (k - k // 2)
    return [fill] * k + list(els)


import re as _re
_SPEC = _re.compile(r'^(?:(?P<fill>.)?(?P<align>[<>=^]))?(?P<sign>[-+ ])?(?P<alt>#)?(?P<zero>0)?(?P<width>\d+)?(?P<grp>[_,])?(?:\.(?P<prec>\d+))?(?P<type>[a-zA-Z%])?$')


def format_value(v, spec, conv=None):
    """format one value -> list of elements (ints / z3 Int terms) or str"""
    if conv in ('s', 'r', 'a'):
        if isinstance(v, SStr):
            pass
        elif core.is_sym(v):
            if isinstance(v, SInt):
                v = mk(render_int(v))
            else:
                raise Unsupported("!%s of symbolic real" % conv)
        else:
            v = {'s': str, 'r': repr, 'a': ascii}[conv](v)
    if isinstance(v, SStr):
        m = _SPEC.match(spec or '')
        if not m:
            raise Unsupported("format spec %r" % spec)
        if m.group('type') not in (None, 's'):
            raise ValueError("Unknown format code '%s' for object of type 'str'" % m.group('type'))
        els = list(v.el)
        if m.group('prec') is not None:
            els = els[:int(m.group('prec'))]
        width = int(m.group('width')) if m.group('width') else None
        fill = ord(m.group('fill')) if m.group('fill') else 32
        return pad(els, width, m.group('align') or '<', fill)
    if isinstance(v, SInt):
        m = _SPEC.match(spec or '')
        if not m:
            raise Unsupported("format spec %r" % spec)
        t = m.group('type')
        if t == 's':
            raise ValueError("Unknown format code 's' for object of type 'int'")
        if t in ('f', 'e', 'g', 'F', 'E', 'G', '%'):
            return cur().format_hook(SReal(core.lift_real(v)), spec)
        if t not in (None, 'd') or m.group('sign') or m.group('alt') or m.group('zero') or m.group('grp'):
            raise Unsupported("int format spec %r" % spec)
        els = render_int(v)
        width = int(m.group('width')) if m.group('width') else None
        fill = ord(m.group('fill')) if m.group('fill') else 32
        return pad(els, width, m.group('align') or '>', fill)
    if isinstance(v, SReal):
        m = _SPEC.match(spec or '')
        if m and m.group('type') in ('d', 's', 'x', 'c'):
            raise ValueError("Unknown format code '%s' for object of type 'float'" % m.group('type'))
        return cur().format_hook(v, spec or '')
    if isinstance(v, SBool):
        raise Unsupported("format of symbolic bool")
    return format(v, spec or '')


def _els_of(piece):
    if isinstance(piece, str):
        return [ord(c) for c in piece]
    return list(piece)


_FORMATTER = _string.Formatter()


def sx_format(fmt, *args, **kwargs):
    """str.format with symbolic-aware field rendering"""
    if isinstance(fmt, SStr):
        fmt = fmt.concretize()
    if not isinstance(fmt, str):
        return fmt.format(*args, **kwargs)
    out = []
    auto = 0
    for lit, field, spec, conv in _FORMATTER.parse(fmt):
        if lit:
            out.extend(ord(c) for c in lit)
        if field is None:
            continue
        if field == '' or field[0] in '.[':
            field = str(auto) + field
            auto += 1
        obj, _ = _FORMATTER.get_field(field, args, kwargs)
        if spec and '{' in spec:
            spec = sx_format(spec, *args, **kwargs)
            if isinstance(spec, SStr):
                spec = spec.concretize()
        out.extend(_els_of(format_value(obj, spec, conv)))
    return mk(out)


def sx_fstring(parts):
    out = []
    for p in parts:
        if p[0] == 's':
            out.extend(ord(c) for c in p[1])
        else:
            _, val, conv, spec = p
            if isinstance(spec, SStr):
                spec = spec.concretize()
            convc = {-1: None, 115: 's', 114: 'r', 97: 'a'}[conv]
            out.extend(_els_of(format_value(val, spec or '', convc)))
    return mk(out)
