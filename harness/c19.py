"""C19 -- hybrid-36 atom serials decode correctly over the whole range and
malformed fields are rejected with ValueError."""
import re

import z3

from symx import And, Or, Not, Implies, eq, le, ge, lt, ite, SInt, SStr, SBool
from symx.sstr import z3and, z3or, mk
from symx.runner import Obligation
from . import common as H

PROPERTY = 'C19'
META = {'assumptions': [
    'int(str) / int(str, 36) are modelled by symx.sstr.int_parse_model (sign, single interior underscores, surrounding '
    'whitespace, ASCII and ARABIC-INDIC decimal digits); the model is compared with CPython exhaustively for all strings of '
    'length <= 3 over the harness alphabet on every run (obligation O0)',
]}

ALPHABET = "019AZaz -+_.١"


# -- reference encoder (standard hy36encode) as arithmetic over a symbolic value

def _b36_char(d, upper):
    return z3.If(d < 10, d + 48, d + (55 if upper else 87))


def _digits(ctx, a, n, base, first_min=0):
    """fresh digit variables d_0..d_{n-1} with a == sum d_k*base^(n-1-k)
    (linear; the decomposition is unique, so this defines the digits)"""
    ds = [ctx.fresh_int('dig') for _ in range(n)]
    tot = z3.IntVal(0)
    for d in ds:
        ctx.assume(z3.And(d >= 0, d < base))
        tot = tot * base + d
    ctx.assume(tot == a)
    if first_min:
        ctx.assume(ds[0] >= first_min)
    return ds


def encode_elements(ctx, width, v, pad):
    """elements of the standard hybrid-36 encoding of SInt v in a field of the
    given width; forks on the segment (decimal / upper / lower) and, for
    decimals, on the number of characters.  pad: left-pad decimals to width."""
    if v < 10 ** width:
        # decimal segment, right-justified
        neg = bool(v < 0)
        a = -v if neg else v
        d = 1
        while d < width and not bool(a < 10 ** d):
            d += 1
        els = [45] if neg else []
        for dg in _digits(ctx, a.e, d, 10):
            els.append(dg + 48)
        if pad:
            els = [32] * (width - len(els)) + els
        return els
    i = v - 10 ** width
    seg = 26 * 36 ** (width - 1)
    if i < seg:
        i = i + 10 * 36 ** (width - 1)
        upper = True
    else:
        i = i - seg + 10 * 36 ** (width - 1)
        upper = False
    return [_b36_char(d, upper) for d in _digits(ctx, i.e, width, 36)]


def py_encode(width, value, pad):
    """the same encoder on python ints (native replay)"""
    digits_u = "0123456789ABCDEFGHIJKLMNOPQRSTUVWXYZ"
    digits_l = digits_u.lower()
    if value < 10 ** width:
        s = '%d' % value
        return s.rjust(width) if pad else s
    i = value - 10 ** width
    seg = 26 * 36 ** (width - 1)
    if i < seg:
        i += 10 * 36 ** (width - 1)
        dg = digits_u
    else:
        i = i - seg + 10 * 36 ** (width - 1)
        dg = digits_l
    out = ''
    for _ in range(width):
        out = dg[i % 36] + out
        i //= 36
    return out


def mk_roundtrip(width):
    lo = -(10 ** (width - 1)) + 1 if width > 1 else 0
    hi = 10 ** width + 2 * 26 * 36 ** (width - 1) - 1

    def body(ctx):
        import propka.hybrid36 as HY
        v = ctx.int('value', lo, hi)
        pad = ctx.choice('padded', [True, False])
        extra = ctx.choice('extra_blanks', [0, 1]) if width < 5 else 0
        if ctx.native:
            s = py_encode(width, v, pad)
        else:
            s = mk(encode_elements(ctx, width, v, pad))
        if extra:
            s = ' ' + s + ' '
        try:
            r = HY.decode(s)
        except ValueError as e:
            ctx.claim('decodes', False, detail='ValueError for the standard encoding')
            return
        ctx.claim('roundtrip', eq(r, v))
        ctx.claim('returns-int', isinstance(r, (int, SInt)) and not isinstance(r, bool))
    return body, lo, hi


def o_monotone(ctx):
    """strictly increasing along the encoding order (two symbolic values,
    width 2 and 3)"""
    import propka.hybrid36 as HY
    width = ctx.choice('width', [2, 3])
    lo = -(10 ** (width - 1)) + 1
    hi = 10 ** width + 2 * 26 * 36 ** (width - 1) - 1
    v1 = ctx.int('v1', lo, hi)
    v2 = ctx.int('v2', lo, hi)
    ctx.assume(lt(v1, v2))
    if ctx.native:
        s1, s2 = py_encode(width, v1, True), py_encode(width, v2, True)
    else:
        s1, s2 = mk(encode_elements(ctx, width, v1, True)), mk(encode_elements(ctx, width, v2, True))
    ctx.claim('strictly-increasing', lt(HY.decode(s1), HY.decode(s2)))


# -- reference grammar ------------------------------------------------------------

def _cls(e):
    ee = e if not isinstance(e, int) else z3.IntVal(e)
    return {
        'blank': ee == 32,
        'minus': ee == 45,
        'digit': z3.And(ee >= 48, ee <= 57),
        'upper': z3.And(ee >= 65, ee <= 90),
        'lower': z3.And(ee >= 97, ee <= 122),
    }, ee


def _val36(ee):
    return z3.If(ee <= 57, ee - 48, z3.If(ee <= 90, ee - 55, ee - 87))


def valid_and_value(els):
    """(valid formula, reference value term) of the reference grammar:
    blanks* -? ( [0-9]+ | [A-Z][0-9A-Z]* | [a-z][0-9a-z]* ) blanks*"""
    L = len(els)
    cl = [_cls(e) for e in els]
    alts = []
    val = z3.IntVal(0)
    for i in range(L + 1):
        for j in range(L + 1 - i):
            core = list(range(i, L - j))
            if not core:
                continue
            lead = [cl[k][0]['blank'] for k in range(i)]
            trail = [cl[k][0]['blank'] for k in range(L - j, L)]
            ends = [z3.Not(cl[core[0]][0]['blank']), z3.Not(cl[core[-1]][0]['blank'])]
            # an optional leading minus applies to every segment (the
            # repository's own tests pin "-A0000" == -100000)
            variants = [(core, 1, [])]
            if len(core) >= 2:
                variants.append((core[1:], -1, [cl[core[0]][0]['minus']]))
            forms = []
            for body, sgn, pre in variants:
                n = len(body)
                dec = z3and(pre + [cl[k][0]['digit'] for k in body])
                v10 = z3.IntVal(0)
                for k in body:
                    v10 = v10 * 10 + (cl[k][1] - 48)
                forms.append((dec, sgn * v10))
                v36 = z3.IntVal(0)
                for k in body:
                    v36 = v36 * 36 + _val36(cl[k][1])
                up = z3and(pre + [cl[body[0]][0]['upper']] + [z3.Or(cl[k][0]['digit'], cl[k][0]['upper']) for k in body[1:]])
                forms.append((up, sgn * (v36 - 10 * 36 ** (n - 1) + 10 ** n)))
                lowr = z3and(pre + [cl[body[0]][0]['lower']] + [z3.Or(cl[k][0]['digit'], cl[k][0]['lower']) for k in body[1:]])
                forms.append((lowr, sgn * (v36 + 16 * 36 ** (n - 1) + 10 ** n)))
            for f, v in forms:
                g = z3and(lead + trail + ends + [f])
                alts.append(g)
                val = z3.If(g, v, val)
    return z3or(alts), val


_RE = re.compile(r'^ *(-?)(?:([0-9]+)|([A-Z][0-9A-Z]*)|([a-z][0-9a-z]*)) *$')


def py_valid_and_value(s):
    if any(ord(c) > 127 for c in s):
        return False, None
    m = _RE.match(s)
    if not m:
        return False, None
    sgn = -1 if m.group(1) else 1
    if m.group(2) is not None:
        return True, sgn * int(m.group(2))
    core = m.group(3) or m.group(4)
    n = len(core)
    v = int(core, 36)
    if m.group(3):
        return True, sgn * (v - 10 * 36 ** (n - 1) + 10 ** n)
    return True, sgn * (v + 16 * 36 ** (n - 1) + 10 ** n)


def mk_reject(length, alphabet=ALPHABET):
    def body(ctx):
        import propka.hybrid36 as HY
        s = ctx.string('s', length, alphabet) if length else ''
        if ctx.native or length == 0:
            valid, ref = py_valid_and_value(s)
        else:
            vf, rv_ = valid_and_value(s.el)
            valid, ref = SBool(vf), SInt(rv_)
        try:
            r = HY.decode(s)
            raised = None
        except ValueError:
            raised = 'ValueError'
        if raised:
            ctx.claim('valid-fields-decode', Not(valid) if not isinstance(valid, bool) else (not valid))
        else:
            ctx.claim('malformed-rejected-with-ValueError', valid,
                      detail='decode accepted a field outside the hybrid-36 grammar')
            if isinstance(valid, bool):
                if valid:
                    ctx.claim('value', r == ref)
            else:
                ctx.claim('value', Implies(valid, eq(r, ref)))
    return body


def mk_atom_serial(length, alphabet=ALPHABET):
    """the atom reader itself (Atom.__init__ / set_properties): the serial columns 7-11 filled with a symbolic field of
    the given length (right-justified) give Atom.numb == the reference value of the hybrid-36 grammar, or ValueError"""
    def body(ctx):
        import propka.atom as A
        from symx.sstr import as_els
        s = ctx.string('s', length, alphabet)
        els = list(as_els(H.pdb_line(1, 'CA', 'ARG', 'A', 10, 1.0, 2.0, 3.0)))
        field = [32] * (5 - length) + list(as_els(s))
        for i, e in enumerate(field):
            els[6 + i] = e
        if ctx.native:
            valid, ref = py_valid_and_value(s)
        else:
            vf, rv_ = valid_and_value(s.el)
            valid, ref = SBool(vf), SInt(rv_)
        try:
            a = A.Atom(line=mk(els))
            raised = None
        except ValueError:
            raised = 'ValueError'
        if raised:
            ctx.claim('valid-serials-are-read', Not(valid) if not isinstance(valid, bool) else (not valid))
        else:
            ctx.claim('malformed-serial-rejected-with-ValueError', valid, detail='the atom reader accepted a serial outside the hybrid-36 grammar')
            if isinstance(valid, bool):
                if valid:
                    ctx.claim('numb-is-the-decoded-serial', a.numb == ref, detail='%r -> %r (reference %r)' % (s, a.numb, ref))
            else:
                ctx.claim('numb-is-the-decoded-serial', Implies(valid, eq(a.numb, ref)))
    return body


def mk_int_model(maxlen):
  def o_int_model(ctx):
      """translator validation: the int() model agrees with CPython on every
      string of length <= 3 over the harness alphabet (both bases), and the
      instrumented decode agrees with the uninstrumented semantics on the
      repository's own test vectors."""
      import itertools
      from symx.sstr import int_parse_model
      n = 0
      bad = []
      for L in range(0, maxlen + 1):
          for tup in itertools.product(ALPHABET, repeat=L):
              s = ''.join(tup)
              for base in (10, 36):
                  try:
                      exp = int(s, base)
                      ok = True
                  except ValueError:
                      ok, exp = False, None
                  valid, value = int_parse_model([ord(c) for c in s], base)
                  mv = z3.is_true(z3.simplify(valid))
                  n += 1
                  if mv != ok or (ok and z3.simplify(value).as_long() != exp):
                      bad.append((s, base))
      ctx.notes['strings_compared'] = n
      ctx.claim('int-model-agrees-with-cpython(%d cases)' % n, not bad, detail=repr(bad[:10]))
      import propka.hybrid36 as HY
      vectors = {"5": 5, "0": 0, "-99999": -99999, "42": 42, "99999": 99999, "A0000": 100000, "ZZZZZ": 43770015,
                 "a0000": 43770016, "zzzzz": 87440031, " 1234": 1234, "   -1": -1}
      ctx.claim('test-vectors', all(HY.decode(k) == v for k, v in vectors.items()))
  return o_int_model


def truncate_side_chain(txt, resnum):
    return '\n'.join(l for l in txt.split('\n') if l and not (l[:4] == 'ATOM' and int(l[22:26]) == resnum and l[12:16].strip() not in ('N', 'CA', 'C', 'O', 'CB'))) + '\n'


def mk_serials_irrelevant(name, args=(), truncated_model=None, moved_atom=None):
    def body(ctx):
        """atom serial numbers never influence predictions: the whole pipeline on a structure whose serials are
        replaced (descending, all equal, shuffled, in the hybrid-36 range, shifted by a symbolic offset) gives
        the results of the structure as numbered in the file"""
        import random
        from . import micro as M
        text = M.text(name)
        schemes = ['descending', 'all-equal', 'shuffled-1', 'shuffled-2', 'hybrid36-range', 'interleaved']
        if moved_atom is not None:
            # two MODELs with the same atoms, one atom displaced in the second (a bond closed in one model and open in the other)
            text = M.models(text, M.moved(text, *moved_atom))
            schemes = ['continued', 'restart-per-model'] + schemes
        elif truncated_model is not None:
            # two MODELs, the second lacks the side chain of one residue (it is topped up from the first); numbering
            # continued through the file, or restarting in every MODEL as NMR ensembles are often written
            text = M.models(text, truncate_side_chain(text, truncated_model))
            schemes = ['continued', 'restart-per-model'] + schemes
        scheme = ctx.choice('numbering', schemes)
        off = ctx.int('offset', 0, 90000)
        base = M.run(text, args=list(args))
        counter = [0]
        atom_lines = [l for l in text.split('\n') if l[:6] in ('ATOM  ', 'HETATM')]
        n_atoms = len(atom_lines)
        n_first = len([l for l in M.text(name).split('\n') if l[:6] in ('ATOM  ', 'HETATM')])
        perm = list(range(n_atoms))
        if scheme.startswith('shuffled'):
            random.Random(int(scheme[-1])).shuffle(perm)

        def tr(a):
            i = counter[0]
            counter[0] += 1
            v = {'descending': n_atoms - i, 'all-equal': 7, 'hybrid36-range': 100000 + 3 * (n_atoms - i), 'interleaved': (i % 2) * 1000 + i // 2,
                 'continued': i + 1, 'restart-per-model': (i if i < n_first else i - n_first) + 1}.get(scheme)
            if v is None:
                v = perm[i] + 1
            a.numb = v + off
        other = M.run(text, args=list(args), transform=tr)
        ctx.claim('same-conformations', list(base.conformation_names) == list(other.conformation_names))
        for conf in list(base.conformation_names) + ['AVR']:
            ctx.claim('same-atoms[%s]' % conf, sorted(M.akey(a) for a in base.conformations[conf].atoms) == sorted(M.akey(a) for a in other.conformations[conf].atoms),
                      detail='%d vs %d atoms' % (len(base.conformations[conf].atoms), len(other.conformations[conf].atoms)))
            M.compare_heavy(ctx, 'serials', base, other, conf)
            M.compare_results(ctx, 'serials', base, other, conf)
            gb, go = M.groups(base, conf), M.groups(other, conf)
            ctx.claim('same-group-types', sorted(gb) == sorted(go), detail='%r vs %r' % (sorted(gb), sorted(go)))
    return body


def mk_serials_in_text(name, two_models=False):
    def body(ctx):
        """as O3, the numbering written into the serial column of the file itself (so that the record reader sees it): serials
        that repeat (all equal, all zero, restarting in every residue, wrapping round after 10), descend, or lie in the hybrid-36 range"""
        from . import micro as M
        import propka.hybrid36 as HY
        text = M.text(name)
        if two_models:
            text = M.models(text, text)
        scheme = ctx.choice('numbering', ['all-equal', 'all-zero', 'restart-per-residue', 'wrapped-after-10', 'descending', 'hybrid36-range', 'blank'])
        base = M.run(text)
        lines, i, last_res, k = [], 0, None, 0
        n_atoms = len([l for l in text.split('\n') if l[:6] in ('ATOM  ', 'HETATM')])
        for l in text.split('\n'):
            if l[:6] in ('ATOM  ', 'HETATM'):
                res = l[17:27]
                k = k + 1 if res == last_res else 1
                last_res = res
                v = {'all-equal': '    7', 'all-zero': '    0', 'restart-per-residue': '%5d' % k, 'wrapped-after-10': '%5d' % (i % 10), 'descending': '%5d' % (n_atoms - i),
                     'hybrid36-range': 'A%04d' % i, 'blank': None}[scheme]
                if v is None:
                    v = '     '
                l = l[:6] + v + l[11:]
                i += 1
            if l:
                lines.append(l)
        try:
            other = M.run('\n'.join(lines) + '\n')
        except ValueError as e:
            # a blank serial field is not a number: rejecting the file is within the statement (nothing is predicted)
            ctx.claim('only-a-blank-serial-may-be-rejected', scheme == 'blank', detail=repr(e))
            return
        ctx.claim('same-conformations', list(base.conformation_names) == list(other.conformation_names))
        for conf in list(base.conformation_names) + ['AVR']:
            ctx.claim('same-atoms[%s]' % conf, sorted(M.akey(a) for a in base.conformations[conf].atoms) == sorted(M.akey(a) for a in other.conformations[conf].atoms),
                      detail='%d vs %d atoms' % (len(base.conformations[conf].atoms), len(other.conformations[conf].atoms)))
            M.compare_heavy(ctx, 'serials', base, other, conf)
            M.compare_results(ctx, 'serials', base, other, conf)
    return body


def obligations(tier):
    code = ['propka/hybrid36.py:decode']
    obs = [Obligation('O0-int-model-validation', mk_int_model(2 if tier == 'quick' else 3), code=['symx/sstr.py:int_parse_model (trusted model of int())'],
                      bounds='all strings of length <= %d over %r, bases 10 and 36' % (2 if tier == 'quick' else 3, ALPHABET), kind='translator-validation')]
    for w in (1, 2, 3, 4, 5):
        body, lo, hi = mk_roundtrip(w)
        obs.append(Obligation('O1-roundtrip-width%d' % w, body, code=code,
                              bounds='every integer in [%d, %d] (the full range of a width-%d field), padded and unpadded%s'
                                     % (lo, hi, w, ', also with surrounding blanks' if w < 5 else ''),
                              claim_doc='decode(standard encoding of v) == v', max_paths=2000))
    obs.append(Obligation('O1-monotone', o_monotone, code=code, bounds='two values in the full range of widths 2 and 3',
                          claim_doc='v1 < v2 => decode(enc v1) < decode(enc v2)', max_paths=4000))
    for name, two in ([('pair_GLU_ARG_TYR', False), ('complex_ZN', True)] if tier == 'quick' else [('pair_GLU_ARG_TYR', False), ('complex_ZN', True), ('complex_MTX', False), ('pep8', True), ('pair_CYS_CYS_bridge', False)]):
        obs.append(Obligation('O3-serials-in-the-text[%s%s]' % (name, ',two MODELs' if two else ''), mk_serials_in_text(name, two),
                              code=['propka/input.py:get_atom_lines_from_pdb', 'propka/atom.py:Atom.set_properties (numb)', 'propka/hybrid36.py:decode', 'propka/run.py:single (whole pipeline)'],
                              bounds='%s%s with its serial column rewritten in the text by 7 schemes (all equal, all zero, restarting in every residue, wrapping after 10, descending, hybrid-36 range, blank)' % (name, ' as two MODELs' if two else ''),
                              kind='table-check', claim_doc='atoms, bonds, groups, pKa values and determinants identical to the run on the file as numbered (a blank serial field may be rejected)', max_paths=50))
    for name in (['lig_MTX', 'lig_MTX_B', 'lig_KNI', 'pair_GLU_ARG_TYR'] if tier == 'quick' else ['lig_MTX', 'lig_MTX_B', 'lig_KNI', 'pair_GLU_ARG_TYR', 'pep8', 'tri_HIS', 'tri_TRP', 'pair_CYS_CYS_bridge']):
        obs.append(Obligation('O3-serials-never-influence[%s]' % name, mk_serials_irrelevant(name),
                              code=['propka/atom.py:Atom.set_properties (numb)', 'propka/run.py:single (whole pipeline: bonding, ligand typing, ring search, groups, pKa)',
                                    'propka/conformation_container.py:ConformationContainer.sort_atoms'],
                              bounds='micro-structure %s with its serial numbers replaced by 6 numbering schemes plus a symbolic offset in [0, 90000]' % name,
                              claim_doc='bonds, groups (incl. ligand group types), pKa values and determinants identical to the run on the file as numbered', max_paths=5000, split_input=('numbering', 6)))
    obs.append(Obligation('O3-serials-never-influence[pair_CYS_CYS_bridge,MODEL2 with the disulfide open]', mk_serials_irrelevant('pair_CYS_CYS_bridge', moved_atom=(58, 'SG', (0.0, 3.0, 0.0))),
                          code=['propka/atom.py:Atom.set_properties (numb)', 'propka/bonds.py:BondMaker.check_distance', 'propka/bonds.py:BondMaker.find_bonds_for_molecules_using_boxes', 'propka/run.py:single (whole pipeline)'],
                          bounds='two-MODEL file from the disulfide micro-structure, one SG moved 3 A in MODEL 2; 8 numbering schemes (continued, restarting per MODEL, ...) plus a symbolic offset',
                          claim_doc='bonds, groups, pKa values identical in every conformation and in the average for every numbering', max_paths=5000, split_input=('numbering', 8)))
    for name, res in ([('pair_GLU_ARG_TYR', 57)] if tier == 'quick' else [('pair_GLU_ARG_TYR', 57), ('pair_GLU_ARG_TYR', 35), ('pep8', 29), ('pair_ASP_ARG', 87)]):
        obs.append(Obligation('O3-serials-never-influence[%s,MODEL2 lacks side chain %d]' % (name, res), mk_serials_irrelevant(name, truncated_model=res),
                              code=['propka/atom.py:Atom.set_properties (numb)', 'propka/conformation_container.py:ConformationContainer.top_up_from_atoms', 'propka/molecular_container.py:MolecularContainer.top_up_conformations',
                                    'propka/run.py:single (whole pipeline)'],
                              bounds='two-MODEL file from %s, MODEL 2 without the side chain of residue %d; 8 numbering schemes (continued, restarting per MODEL, ...) plus a symbolic offset in [0, 90000]' % (name, res),
                              claim_doc='atoms after topping up, bonds, groups, pKa values and determinants identical in every conformation and in the average', max_paths=5000, split_input=('numbering', 8)))
    for L in ((1, 2, 3) if tier == 'quick' else (1, 2, 3, 4)):
        obs.append(Obligation('O4-atom-reader-serial-len%d' % L, mk_atom_serial(L), code=['propka/atom.py:Atom.__init__', 'propka/atom.py:Atom.set_properties', 'propka/hybrid36.py:decode'],
                              bounds='one ATOM record whose serial field holds every string of length %d over %r (right-justified in columns 7-11)' % (L, ALPHABET),
                              claim_doc='Atom.numb == reference value of blanks* -? (digits | upper-hy36 | lower-hy36) blanks*; anything else => ValueError',
                              max_paths=200000, wall_s=170 if tier == 'quick' else 1500))
    maxlen = 3 if tier == 'quick' else 5
    for L in range(0, maxlen + 1):
        obs.append(Obligation('O2-reject-len%d' % L, mk_reject(L), code=code,
                              bounds='every string of length %d over the alphabet %r' % (L, ALPHABET),
                              claim_doc='outside blanks* -? (digits | upper-hy36 | lower-hy36) blanks* => ValueError; inside => reference value',
                              max_paths=200000, wall_s=170 if tier == 'quick' else 1500, stop_on_violation=True))
    return obs


MANIFEST_ENTRY = {
    'level_note': ('decode executed on symbolic strings of fixed length (characters = integer code points over a 13-character alphabet '
                   'chosen to contain every class the code distinguishes plus "_", "+", "." and a non-ASCII decimal digit); '
                   'int() is a trusted model validated against CPython each run. Round trip: the value is a symbolic integer over the '
                   'full range of each width 1-5 and the standard encoder is arithmetic over it. Rejection: lengths 0-3 quick, 0-5 thorough. '
                   'O3: the whole pipeline on ligand / peptide micro-structures whose serials are renumbered by 6 schemes plus a symbolic offset (serial columns of a single record: C07-O2).'),
}
