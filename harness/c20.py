"""C20 -- rotate_vector_around_an_axis is the right-handed (Rodrigues) rotation
for every axis.  Angles are (sin, cos) pairs on the unit circle (SAngle), so
the function is an exact algebraic map."""
import itertools
import math

from symx import And, Or, Not, Implies, eq, le, ge, lt, ite, SReal, SAngle, rv, Fraction
from symx.runner import Obligation
from . import common as H

PROPERTY = 'C20'
META = {'assumptions': [
    'angles are represented by (sin, cos) with sin^2+cos^2=1; asin/acos return principal values '
    '(cos(asin t) = +sqrt(1-t^2), sin(acos t) = +sqrt(1-t^2)); cos(pi/2) is exactly 0',
]}


# 'by any angle': the numeric angle is the principal value plus k whole turns (code that looks at the angle itself,
# not only at its sine and cosine, is thereby decided for angles beyond half a turn)
# The turn count is fixed per obligation (not a solver variable: an integer in the path condition would make
# every query mixed integer / non-linear real).
def _theta(ctx, k=0):
    ctx.notes['exact_trig'] = True     # cos(pi/2) is exactly 0 in the exact-real model
    if ctx.native:
        s = ctx.real('theta_sin')
        c = ctx.real('theta_cos')
        th = math.atan2(s, c)
        return th + 2 * math.pi * k, math.sin(th), math.cos(th)
    a = SAngle.symbolic(ctx, 'theta')
    a.k = k
    return a, a.s, a.c


def _num(ctx, v):
    """a concrete axis component as an exact symbolic numeral (so that the
    radicals stay exact) / a float natively"""
    if ctx.native:
        return float(v)
    return SReal(rv(v))


def _check_rodrigues(ctx, ax, ay, az, tag='', k=0):
    import propka.vector_algebra as V
    theta, s, c = _theta(ctx, k)
    vx = ctx.real('vx', -10, 10)
    vy = ctx.real('vy', -10, 10)
    vz = ctx.real('vz', -10, 10)
    axis = V.Vector(ax, ay, az)
    vec = V.Vector(vx, vy, vz)
    r = V.rotate_vector_around_an_axis(theta, axis, vec)
    # Rodrigues multiplied by |a|^2:  n2*v' = n2*c*v + n*s*(a x v) + (1-c)*(a.v)*a
    n2 = ax * ax + ay * ay + az * az
    if ctx.native:
        n = math.sqrt(n2)
    else:
        from symx.core import ssqrt
        n = ssqrt(n2)
    cx = ay * vz - az * vy
    cy = az * vx - ax * vz
    cz = ax * vy - ay * vx
    dot = ax * vx + ay * vy + az * vz
    ex = n2 * c * vx + n * s * cx + (1 - c) * dot * ax
    ey = n2 * c * vy + n * s * cy + (1 - c) * dot * ay
    ez = n2 * c * vz + n * s * cz + (1 - c) * dot * az
    if ctx.native:
        # natively the comparison is made on the rotated vector itself (dividing by |a|^2), so that it keeps its
        # meaning for very short axes
        scale = 1e-9 * (1.0 + abs(vx) + abs(vy) + abs(vz))
        ctx.claim(tag + 'x', abs(r.x - ex / n2) <= scale, detail='%r vs %r' % (r.x, ex / n2))
        ctx.claim(tag + 'y', abs(r.y - ey / n2) <= scale, detail='%r vs %r' % (r.y, ey / n2))
        ctx.claim(tag + 'z', abs(r.z - ez / n2) <= scale, detail='%r vs %r' % (r.z, ez / n2))
        return
    from symx.core import lift_real
    for nm, got, want in (('x', r.x, ex), ('y', r.y, ey), ('z', r.z, ez)):
        c_ = eq(n2 * got, want)
        if hasattr(c_, 'gap'):
            # when the claim fails, a counterexample is preferred in which the rotated vector itself (not the vector
            # times |a|^2) is visibly off: the native replay compares on that scale
            c_.gap = lift_real(got) - lift_real(want) / lift_real(n2)
        ctx.claim(tag + nm, c_)


def mk_plane(zero, turns=0):
    """axis with the named component exactly 0, the other two symbolic (not
    both 0, any signs, either may itself be 0)"""
    def body(ctx):
        comps = {}
        for k in 'xyz':
            comps[k] = 0.0 if k == zero else ctx.real('a' + k, -10, 10)
        others = [comps[k] for k in 'xyz' if k != zero]
        if ctx.native:
            ctx.assume(not (others[0] == 0 and others[1] == 0))      # exactly: a very short axis is a non-zero axis
        else:
            ctx.assume(Not(And(eq(others[0], 0), eq(others[1], 0))))
        _check_rodrigues(ctx, comps['x'], comps['y'], comps['z'], k=turns)
    return body


def mk_short_axis(zero):
    """the rotation does not depend on the length of the axis vector: axes far shorter than any coordinate (components
    below 2^-30, one of them exactly 0) with vectors of ordinary size.  The claim is made with the tolerance of the
    native comparison (1e-9 on the rotated vector), so that only a visibly wrong rotation fails it."""
    def body(ctx):
        S = 2.0 ** -30
        comps = {}
        for k_ in 'xyz':
            comps[k_] = 0.0 if k_ == zero else ctx.real('a' + k_, -S, S)
        others = [comps[k_] for k_ in 'xyz' if k_ != zero]
        if ctx.native:
            ctx.assume(not (others[0] == 0 and others[1] == 0))
        else:
            ctx.assume(Not(And(eq(others[0], 0), eq(others[1], 0))))
        import propka.vector_algebra as V
        theta, s, c = _theta(ctx, 0)
        v = [ctx.real('v' + k_, -10, 10) for k_ in 'xyz']
        for vi in v:
            # vector components are 0 or of ordinary size (the subject is the short axis, not a short vector)
            ctx.assume(Or(eq(vi, 0), ge(vi, 0.5), le(vi, -0.5)) if not ctx.native else (vi == 0 or abs(vi) >= 0.5))
        ax, ay, az = comps['x'], comps['y'], comps['z']
        r = V.rotate_vector_around_an_axis(theta, V.Vector(ax, ay, az), V.Vector(*v))
        n2 = ax * ax + ay * ay + az * az
        n = math.sqrt(n2) if ctx.native else __import__('symx.core', fromlist=['ssqrt']).ssqrt(n2)
        vx, vy, vz = v
        cr = (ay * vz - az * vy, az * vx - ax * vz, ax * vy - ay * vx)
        dot = ax * vx + ay * vy + az * vz
        want = [n2 * c * vi + n * s * ci + (1 - c) * dot * ai for vi, ci, ai in zip(v, cr, (ax, ay, az))]
        for nm, got, w in zip('xyz', (r.x, r.y, r.z), want):
            if ctx.native:
                ctx.claim(nm, abs(got - w / n2) <= 1e-6, detail='%r vs %r' % (got, w / n2))
            else:
                ctx.claim(nm, And(le(n2 * got - w, n2 * 1e-6), le(w - n2 * got, n2 * 1e-6)))
    return body


def mk_history(first_axis, second_axis):
    """the rotation is a function of its arguments: a rotation by theta about one axis (in particular one exactly along
    -z, +z or a coordinate axis), followed by a rotation by the SAME theta about another axis, gives the Rodrigues
    rotation for the second call too (nothing computed for the first call may leak into the second)"""
    def body(ctx):
        import propka.vector_algebra as V
        theta, s, c = _theta(ctx, 0)
        v1 = [ctx.real('u' + k_, -10, 10) for k_ in 'xyz']
        V.rotate_vector_around_an_axis(theta, V.Vector(*[_num(ctx, q) for q in first_axis]), V.Vector(*v1))
        ax, ay, az = (_num(ctx, q) for q in second_axis)
        vx, vy, vz = [ctx.real('v' + k_, -10, 10) for k_ in 'xyz']
        r = V.rotate_vector_around_an_axis(theta, V.Vector(ax, ay, az), V.Vector(vx, vy, vz))
        n2 = ax * ax + ay * ay + az * az
        n = math.sqrt(n2) if ctx.native else __import__('symx.core', fromlist=['ssqrt']).ssqrt(n2)
        cr = (ay * vz - az * vy, az * vx - ax * vz, ax * vy - ay * vx)
        dot = ax * vx + ay * vy + az * vz
        want = [n2 * c * vi + n * s * ci + (1 - c) * dot * ai for vi, ci, ai in zip((vx, vy, vz), cr, (ax, ay, az))]
        for nm, got, w in zip('xyz', (r.x, r.y, r.z), want):
            if ctx.native:
                ctx.claim(nm, abs(got - w / n2) <= 1e-9 * (1 + abs(vx) + abs(vy) + abs(vz)), detail='%r vs %r' % (got, w / n2))
            else:
                ctx.claim(nm, eq(n2 * got, w))
    return body


FLOAT_AXES = [(1e-9, 0.0, -1.0), (0.0, 1e-9, -1.0), (1e-12, 0.0, -7.0), (1e-9, 1e-9, 1.0), (-1e-10, 0.0, 2.0), (1.0, 1e-9, 0.0), (-1.0, 0.0, 1e-9), (0.0, -3.0, 1e-10),
              (1e-9, -1.0, 0.0), (5e-324, 0.0, -1.0), (3e-9, -2e-9, 4.0)]      # (axis length of order 1: squares of the components neither overflow nor underflow together)


def mk_float_axis(axis):
    def body(ctx):
        """an axis given as doubles that lies within rounding of a coordinate axis without being on it (a tiny non-zero component):
        the alignment angles are then computed from quotients that round to exactly +-1 or 0.  The code runs on these concrete
        doubles (its own floating-point alignment), angle and vector symbolic; the result is Rodrigues' formula within 1e-6"""
        import propka.vector_algebra as V
        ax, ay, az = axis
        theta, s, c = _theta(ctx, 0)
        vx = ctx.real('vx', -10, 10)
        vy = ctx.real('vy', -10, 10)
        vz = ctx.real('vz', -10, 10)
        r = V.rotate_vector_around_an_axis(theta, V.Vector(ax, ay, az), V.Vector(vx, vy, vz))
        n = math.sqrt(ax * ax + ay * ay + az * az)
        if n == 0.0 or n != n:
            return
        ux, uy, uz = ax / n, ay / n, az / n
        cx, cy, cz = uy * vz - uz * vy, uz * vx - ux * vz, ux * vy - uy * vx
        dot = ux * vx + uy * vy + uz * vz
        for nm, got, want in (('x', r.x, c * vx + s * cx + (1 - c) * dot * ux), ('y', r.y, c * vy + s * cy + (1 - c) * dot * uy), ('z', r.z, c * vz + s * cz + (1 - c) * dot * uz)):
            d = got - want
            if ctx.native:
                ctx.claim('near-axis:' + nm, abs(d) <= 1e-6, detail='%r vs %r' % (got, want))
            else:
                ctx.claim('near-axis:' + nm, And(le(d, 1e-6), ge(d, -1e-6)))
    return body


def mk_generic(axis, k=0):
    def body(ctx):
        ax, ay, az = (_num(ctx, v) for v in axis)
        _check_rodrigues(ctx, ax, ay, az, k=k)
    return body


def generic_axes(tier):
    out = []
    bases = [(2, 3, 6), (1, 4, 8)]
    for b in bases:
        for perm in sorted(set(itertools.permutations(b))):
            for signs in itertools.product((1, -1), repeat=3):
                out.append(tuple(p * s for p, s in zip(perm, signs)))
    if tier == 'quick':
        # all 8 sign patterns of one permutation of each base + one more
        # permutation of (2,3,6) with mixed signs
        q = [a for a in out if tuple(abs(v) for v in a) in ((2, 3, 6), (8, 1, 4))]
        return q
    return out


def mk_matrices(k=0):
    return lambda ctx: o_matrices(ctx, k)


def o_matrices(ctx, k=0):
    """elementary rotation matrices: right-handed about +z / +y for a
    symbolic angle; Matrix4x4 @ Vector is the affine map"""
    import propka.vector_algebra as V
    theta, s, c = _theta(ctx, k)
    vx = ctx.real('vx', -10, 10)
    vy = ctx.real('vy', -10, 10)
    vz = ctx.real('vz', -10, 10)
    v = V.Vector(vx, vy, vz)
    rz = V.rotate_atoms_around_z_axis(theta) @ v
    ctx.claim('rot-z', And(eq(rz.x, c * vx - s * vy), eq(rz.y, s * vx + c * vy), eq(rz.z, vz)))
    ry = V.rotate_atoms_around_y_axis(theta) @ v
    ctx.claim('rot-y', And(eq(ry.x, c * vx + s * vz), eq(ry.y, vy), eq(ry.z, -s * vx + c * vz)))
    m = V.Matrix4x4(*[ctx.real('m%d' % i, -5, 5) for i in range(12)], 0.0, 0.0, 0.0, 1.0)
    r = m @ v
    ctx.claim('matmul', And(eq(r.x, m.a11 * vx + m.a12 * vy + m.a13 * vz + m.a14),
                            eq(r.y, m.a21 * vx + m.a22 * vy + m.a23 * vz + m.a24),
                            eq(r.z, m.a31 * vx + m.a32 * vy + m.a33 * vz + m.a34)))


def obligations(tier):
    VA = 'propka/vector_algebra.py:'
    code = [VA + 'rotate_vector_around_an_axis', VA + 'rotate_atoms_around_z_axis',
            VA + 'rotate_atoms_around_y_axis', VA + 'Matrix4x4.__matmul__']
    obs = [Obligation('O0-elementary-matrices', o_matrices, code=code[1:], bounds='angle on the unit circle, vector in [-10,10]^3, 12 free matrix entries',
                      claim_doc='rot_z / rot_y are the right-handed elementary rotations; @ is the affine map')]
    for zero in 'xyz':
        obs.append(Obligation('O1-axis-%s-zero' % zero, mk_plane(zero), code=code,
                              bounds='axis component %s = 0, the other two in [-10,10] not both 0 (both signs, incl. along a coordinate axis); '
                                     'angle any (sin,cos) on the unit circle; vector in [-10,10]^3' % zero,
                              claim_doc='|a|^2 * result = Rodrigues(theta, a, v) * |a|^2, per coordinate',
                              query_timeout_ms=30000, wall_s=200))
    for fa, sa in ([((0, 0, -1), (2, 3, 6)), ((0, 0, -3), (0, 0, 1)), ((0, 0, 1), (0, 0, -2))] if tier == 'quick' else
                   [((0, 0, -1), (2, 3, 6)), ((0, 0, -3), (0, 0, 1)), ((0, 0, 1), (0, 0, -2)), ((0, -1, 0), (8, 1, 4)), ((-1, 0, 0), (0, 2, 3)), ((2, 3, 6), (0, 0, -1)), ((0, 0, -1), (0, 0, -1))]):
        obs.append(Obligation('O3-history[%s then %s]' % (fa, sa), mk_history(fa, sa), code=code,
                              bounds='two calls with the same symbolic angle: first about %r, then about %r; vectors in [-10,10]^3' % (fa, sa),
                              claim_doc='the second call is the Rodrigues rotation (no state survives the first call)', query_timeout_ms=60000, wall_s=240))
    for zero in 'xyz':
        obs.append(Obligation('O1-short-axis-%s-zero' % zero, mk_short_axis(zero), code=code,
                              bounds='axis component %s = 0, the other two in [-2^-30, 2^-30] not both 0; angle any; vector components 0 or of magnitude in [0.5, 10]' % zero,
                              claim_doc='result within 1e-6 of the Rodrigues rotation (the rotation does not depend on the length of the axis)', query_timeout_ms=30000, wall_s=200))
    for a in (FLOAT_AXES[:6] if tier == 'quick' else FLOAT_AXES):
        obs.append(Obligation('O2-axis-within-rounding-of-a-coordinate-axis%r' % (a,), mk_float_axis(a), code=code,
                              bounds='concrete axis %r given as doubles (the code aligns it in its own floating-point arithmetic: quotients that round to exactly +-1 or 0); angle any; vector in [-10,10]^3' % (a,),
                              claim_doc='result within 1e-6 of the Rodrigues rotation, per coordinate', query_timeout_ms=30000, wall_s=120))
    for a in generic_axes(tier):
        obs.append(Obligation('O2-axis(%d,%d,%d)' % a, mk_generic(a), code=code,
                              bounds='concrete generic axis %r (radicals kept exact); angle any; vector in [-10,10]^3' % (a,),
                              claim_doc='Rodrigues, per coordinate', query_timeout_ms=60000, wall_s=240))
    # 'by any angle': the same for angles one or two whole turns away from the principal value (|theta| up to 5 pi).  The
    # original code only takes sin and cos of the angle; code that looks at the angle itself (theta < 0, theta > pi) is
    # decided through the SAngle comparisons.
    for k in (1, -1, 2, -2):
        obs.append(Obligation('O0-elementary-matrices[%+d turns]' % k, mk_matrices(k), code=code[1:],
                              bounds='angle = principal value %+d whole turns, vector in [-10,10]^3' % k, claim_doc='as O0'))
        for zero in 'xyz':
            obs.append(Obligation('O1-axis-%s-zero[%+d turns]' % (zero, k), mk_plane(zero, k), code=code,
                                  bounds='as O1-axis-%s-zero with the angle %+d whole turns away from its principal value' % (zero, k),
                                  claim_doc='as O1', query_timeout_ms=30000, wall_s=200))
        for a in (generic_axes(tier)[::5 if tier == 'quick' else 3] if (tier != 'quick' or abs(k) == 1) else generic_axes(tier)[:1]):
            obs.append(Obligation('O2-axis(%d,%d,%d)[%+d turns]' % (a + (k,)), mk_generic(a, k), code=code,
                                  bounds='concrete generic axis %r; angle %+d whole turns away from its principal value' % (a, k),
                                  claim_doc='Rodrigues, per coordinate', query_timeout_ms=60000, wall_s=240))
    return obs


MANIFEST_ENTRY = {
    'level_note': ('Angles as (sin,cos) pairs with principal-value asin/acos; exact reals. Fully decided: every axis with at least one '
                   'zero component (three coordinate planes, both signs, incl. the six coordinate directions). Generic axes (all components '
                   'non-zero): concrete axes only -- sign patterns/permutations of (2,3,6) and (1,4,8), 16 quick / 96 thorough -- with '
                   'angle and vector symbolic; a fully symbolic generic axis is beyond z3 NRA here (unknown at 120 s, DESIGN.md section 2) '
                   'and is outside the claim. The zero axis is excluded (the statement says non-zero).'
                   ' Every family is also run with the angle 1 (thorough: 2) whole turns away from its principal value, and for axes shorter than 2^-30 (tolerance claim 1e-6).'),
}
