"""symx.runner -- obligations, process pool, known findings, replay, evidence.

usage:  python -m symx.runner <PROPERTY> --tier quick|thorough [--only NAME]
        python -m symx.runner --replay <file>
"""
import argparse
import hashlib
import importlib
import json
import multiprocessing as mp
import os
import subprocess
import sys
import time
import traceback

VERIF = os.path.dirname(os.path.dirname(os.path.abspath(__file__)))
REPO = os.environ.get('PROPKA_REPO', '/repo')

EXIT_OK, EXIT_VIOLATION, EXIT_HARNESS = 0, 1, 3
CURRENT_TIER = 'quick'


class Obligation:
    def __init__(self, name, fn, *, code=(), bounds='', native='auto', claim_doc='',
                 max_paths=20000, query_timeout_ms=10000, wall_s=150, hard_s=None,
                 concretize_cap=64, tiers=('quick', 'thorough'), stop_on_violation=True, oneshot='auto',
                 shims=(), outside='', min_paths=1, kind='symbolic', shards=1, backend='z3', split_input=None):
        self.name = name
        self.fn = fn
        self.code = list(code)
        self.bounds = bounds
        self.native = native
        self.claim_doc = claim_doc
        self.max_paths = max_paths
        self.query_timeout_ms = query_timeout_ms
        self.wall_s = wall_s
        self.hard_s = hard_s or (wall_s * 1.5 + 30)
        self.concretize_cap = concretize_cap
        self.tiers = tiers
        self.stop_on_violation = stop_on_violation
        self.oneshot = oneshot
        self.shims = list(shims)
        self.outside = outside
        self.min_paths = min_paths
        self.kind = kind
        self.shards = shards
        self.backend = backend
        self.init_stack = None
        self.split = None
        # (input name, k): the declared range of that integer input / choice is cut into k consecutive parts, one worker each
        self.split_input = split_input
        self.narrow = None


# ---------------------------------------------------------------------------
# known findings
# ---------------------------------------------------------------------------

def load_known(prop):
    p = os.path.join(VERIF, 'known_findings.json')
    if not os.path.exists(p):
        return [], []
    data = json.load(open(p))
    known = [k for k in data.get('findings', []) if k['property'] == prop]
    fixed = [k for k in data.get('fixed', []) if k['property'] == prop]
    return known, fixed


def eval_pred(pred, env):
    """evaluate a known-finding signature predicate (python expression over the
    obligation's input names) in `env`; undefined names -> None (n/a)."""
    if pred.startswith('fn:'):
        # 'fn:<harness module>:<function>' -- function(env) -> SBool / bool / None
        _, modname, fname = pred.split(':')
        mod = importlib.import_module('harness.' + modname)
        return getattr(mod, fname)(env)
    try:
        return eval(pred, {'__builtins__': {}}, env)
    except NameError:
        return None


# ---------------------------------------------------------------------------
# child: explore one obligation
# ---------------------------------------------------------------------------

def _explore(ob, prop, known, conn):
    from . import core, instrument
    import z3
    res = {'name': ob.name, 'status': 'error'}
    t0 = time.time()
    try:
        import logging
        logging.disable(logging.CRITICAL)
        instrument.install()
        ex = core.Explorer(max_paths=ob.max_paths, query_timeout_ms=ob.query_timeout_ms,
                           concretize_cap=ob.concretize_cap, wall_s=ob.wall_s,
                           stop_on_violation=ob.stop_on_violation, oneshot=ob.oneshot, backend=ob.backend)
        ex.narrow = ob.narrow or {}
        kn = [k for k in known if k.get('obligation') in (None, ob.name, ob.name.split('#')[0])]
        ex.known = kn
        ex.known_hits = {}

        # claim wrapper implementing known-finding handling
        orig_claim = core.Ctx.claim

        def claim(self, name, formula, detail=None):
            if isinstance(formula, core.SBool):
                formula = formula.e
            if isinstance(formula, bool):
                formula = z3.BoolVal(formula)
            applicable = []
            env = {n: (core.SInt(v) if v.sort() == z3.IntSort() else
                       core.SBool(v) if v.sort() == z3.BoolSort() else core.SReal(v))
                   for n, v in self.inputs.items()}
            env.update(And=core.And, Or=core.Or, Not=core.Not, Implies=core.Implies)
            for k in kn:
                if k.get('claim') not in (None, name) and not name.startswith(k.get('claim', '') + ':'):
                    continue
                p = eval_pred(k['signature'], env)
                if p is None:
                    continue
                pe = core.lift_bool(p)
                applicable.append((k, pe))
            if not applicable:
                return orig_claim(self, name, formula, detail)
            # is the known finding (still) present on this path?
            for k, pe in applicable:
                if k['id'] in ex.known_hits:
                    continue
                r, m = self._check(z3.Not(formula), pe)
                if r == z3.sat:
                    ex.known_hits[k['id']] = {'claim': name, 'inputs': self.model_inputs(m)}
            # any violation outside the known signatures?
            weakened = z3.Or(formula, *[pe for _, pe in applicable])
            return orig_claim(self, name, weakened, detail)

        core.Ctx.claim = claim
        try:
            ex.run(ob.fn, initial_stack=ob.init_stack, bfs_until=ob.split)
        finally:
            core.Ctx.claim = orig_claim
        st = ex.stats
        res.update({
            'status': 'done', 'stats': st.as_dict(), 'exhausted': (ex.exhausted or ex.frontier is not None) and not ex.cap_hit,
            'violations': [_ser(v) for v in ex.violations],
            'known_hits': {k: _ser(v) for k, v in ex.known_hits.items()},
            'samples': ex.samples, 'claims': ex.claim_names,
            'axioms': sorted(ex.axioms), 'path_outcomes': ex.path_outcomes,
            'source_hashes': dict(instrument.SOURCE_HASHES),
            'frontier': ex.frontier,
        })
    except BaseException as e:  # noqa
        res['status'] = 'error'
        res['error'] = ''.join(traceback.format_exception(type(e), e, e.__traceback__))[-4000:]
    res['wall_s'] = time.time() - t0
    try:
        conn.send(res)
    except Exception as e:
        conn.send({'name': ob.name, 'status': 'error', 'error': 'unserialisable result: %r' % (e,), 'wall_s': time.time() - t0})
    conn.close()


def _ser(o):
    from fractions import Fraction
    if isinstance(o, dict):
        return {str(k): _ser(v) for k, v in o.items()}
    if isinstance(o, (list, tuple)):
        return [_ser(v) for v in o]
    if isinstance(o, Fraction):
        return {'__frac__': [str(o.numerator), str(o.denominator)]}
    if isinstance(o, (int, float, str, bool)) or o is None:
        return o
    return str(o)


def _deser(o):
    from fractions import Fraction
    if isinstance(o, dict):
        if '__frac__' in o:
            return Fraction(int(o['__frac__'][0]), int(o['__frac__'][1]))
        return {k: _deser(v) for k, v in o.items()}
    if isinstance(o, list):
        return [_deser(v) for v in o]
    return o


def run_pool(obs, prop, known, jobs):
    """run obligations in forked children, <= jobs at a time, with hard kill"""
    ctx = mp.get_context('fork')
    results = {}
    pending = []
    for ob in obs:
        pre = getattr(ob, 'precomputed', None)
        if pre is not None:
            results[ob.name] = pre
        else:
            pending.append(ob)
    running = []
    while pending or running:
        while pending and len(running) < jobs:
            ob = pending.pop(0)
            pc, cc = ctx.Pipe(duplex=False)
            p = ctx.Process(target=_explore, args=(ob, prop, known, cc))
            p.start()
            cc.close()
            running.append((ob, p, pc, time.time()))
        time.sleep(0.05)
        still = []
        for ob, p, pc, t0 in running:
            if pc.poll():
                try:
                    results[ob.name] = pc.recv()
                except EOFError:
                    results[ob.name] = {'name': ob.name, 'status': 'error', 'error': 'child died', 'wall_s': time.time() - t0}
                p.join(5)
                if p.is_alive():
                    p.kill()
            elif not p.is_alive():
                results[ob.name] = {'name': ob.name, 'status': 'error',
                                    'error': 'child exited (%s) without result' % p.exitcode, 'wall_s': time.time() - t0}
            elif time.time() - t0 > ob.hard_s:
                p.kill()
                p.join()
                results[ob.name] = {'name': ob.name, 'status': 'timeout', 'wall_s': time.time() - t0}
            else:
                still.append((ob, p, pc, t0))
        running = still
    return results


def expand_shards(obs, prop, known, jobs):
    """obligations with shards=k: a splitter child explores breadth-first
    until the frontier holds >= 6k prefixes; the frontier is then dealt to k
    shard obligations (each explores its prefixes' subtrees depth-first).  The
    paths finished by the splitter are reported under '<name>#split'."""
    import copy
    out = []
    splitters = []
    ranged = []
    for ob in obs:
        if ob.split_input:
            nm, k = ob.split_input
            for i in range(k):
                sh = copy.copy(ob)
                sh.name = '%s#r%d/%d' % (ob.name, i + 1, k)
                sh.narrow = {nm: (i, k)}
                sh.split_input = None
                ranged.append(sh)
        else:
            ranged.append(ob)
    obs = ranged
    for ob in obs:
        if ob.shards <= 1:
            out.append(ob)
            continue
        sp = copy.copy(ob)
        sp.name = ob.name + '#split'
        sp.split = 6 * ob.shards
        splitters.append((ob, sp))
    if not splitters:
        return out
    res = run_pool([sp for _, sp in splitters], prop, known, jobs)
    for ob, sp in splitters:
        r = res[sp.name]
        fr = r.get('frontier') if r.get('status') == 'done' else None
        sp.precomputed = r
        out.append(sp)
        if not fr:
            continue
        for i in range(ob.shards):
            sh = copy.copy(ob)
            sh.name = '%s#%d/%d' % (ob.name, i + 1, ob.shards)
            sh.init_stack = fr[i::ob.shards]
            if sh.init_stack:
                out.append(sh)
    return out


# ---------------------------------------------------------------------------
# replay
# ---------------------------------------------------------------------------

def write_replay(prop, ob, viol, tier=None):
    d = os.path.join(VERIF, 'replays', prop)
    os.makedirs(d, exist_ok=True)
    payload = {'property': prop, 'tier': tier or CURRENT_TIER, 'obligation': ob.name.split('#')[0], 'claim': viol['claim'],
               'inputs': viol['inputs'], 'detail': viol.get('detail')}
    h = hashlib.sha256(json.dumps(payload, sort_keys=True).encode()).hexdigest()[:12]
    path = os.path.join(d, '%s-%s.json' % (ob.name.replace('/', '_'), h))
    with open(path, 'w') as fh:
        json.dump(payload, fh, indent=1, sort_keys=True)
    return path


def replay_file(path):
    """fresh-interpreter replay of a counterexample against the plain code.
    returns (reproduced: bool|None, text)"""
    env = dict(os.environ)
    env['PYTHONPATH'] = VERIF + os.pathsep + env.get('PYTHONPATH', '')
    try:
        r = subprocess.run([sys.executable, '-m', 'symx.runner', '--replay', path],
                           capture_output=True, text=True, timeout=600, env=env, cwd=VERIF)
    except subprocess.TimeoutExpired:
        return None, 'replay timed out'
    out = r.stdout + r.stderr
    if r.returncode == 1:
        return True, out
    if r.returncode == 0:
        return False, out
    return None, out


def do_replay(path):
    from . import instrument
    import logging
    logging.disable(logging.CRITICAL)
    instrument.plain()
    payload = json.load(open(path))
    prop = payload['property']
    mod = importlib.import_module('harness.' + prop.lower())
    tiers = [payload.get('tier', 'quick')] + [t for t in ('quick', 'thorough') if t != payload.get('tier', 'quick')]
    obs = {}
    for t in reversed(tiers):      # the recorded tier wins when both tiers have an obligation of that name
        for o in mod.obligations(t):
            obs[o.name] = o
    ob = obs.get(payload['obligation'])
    if ob is None or ob.native is None:
        print('no native replay for', payload['obligation'])
        return 2
    inputs = _deser(payload['inputs'])
    if ob.native == 'auto':
        from . import core
        violated, detail = core.run_native(ob.fn, inputs, payload.get('claim'))
    else:
        violated, detail = ob.native(inputs, payload.get('claim'))
    print('replay %s/%s claim=%s: %s' % (prop, ob.name, payload.get('claim'), 'VIOLATED' if violated else 'holds'))
    print(detail)
    return 1 if violated else 0


# ---------------------------------------------------------------------------
# main
# ---------------------------------------------------------------------------

def main(argv=None):
    ap = argparse.ArgumentParser()
    ap.add_argument('prop', nargs='?')
    ap.add_argument('--tier', default=os.environ.get('VERIF_TIER', 'quick'))
    ap.add_argument('--only', default=None)
    ap.add_argument('--replay', default=None)
    ap.add_argument('--jobs', type=int, default=int(os.environ.get('VERIF_JOBS', '16')))
    ap.add_argument('--no-evidence', action='store_true')
    args = ap.parse_args(argv)
    if args.replay:
        sys.exit(do_replay(args.replay))
    prop = args.prop.upper()
    tier = args.tier if args.tier in ('quick', 'thorough') else 'quick'
    global CURRENT_TIER
    CURRENT_TIER = tier
    seed = int(os.environ.get('VERIF_SEED', '0') or 0)
    t0 = time.time()
    sys.path.insert(0, VERIF)
    mod = importlib.import_module('harness.' + prop.lower())
    obs = [o for o in mod.obligations(tier) if tier in o.tiers]
    if args.only:
        obs = [o for o in obs if args.only in o.name]
    known, fixed = load_known(prop)
    obs = expand_shards(obs, prop, known, args.jobs)
    import shutil
    shutil.rmtree(os.path.join(VERIF, 'replays', prop), ignore_errors=True)
    results = run_pool(obs, prop, known, args.jobs)

    exit_code = EXIT_OK
    lines = []
    ev_obs = []
    tot = {'queries': 0, 'paths': 0, 'claims': 0, 'discharged': 0, 'inconclusive': 0,
           'solver_s': 0.0, 'reach_sat': 0, 'violated': 0}
    n_discharged_obs = 0
    samples = []
    axioms = set()
    hashes = {}
    harness_errors = []
    known_printed = set()
    violations = 0
    for ob in obs:
        r = results[ob.name]
        e = {'obligation': ob.name, 'code': ob.code, 'bounds': ob.bounds, 'claim': ob.claim_doc,
             'shims': ob.shims, 'outside_claim': ob.outside, 'wall_s': round(r.get('wall_s', 0), 2)}
        if r['status'] == 'timeout':
            e['result'] = 'inconclusive: hard wall-clock limit (%.0fs) hit' % ob.hard_s
            ev_obs.append(e)
            tot['inconclusive'] += 1
            continue
        if r['status'] == 'error':
            e['result'] = 'harness error'
            e['error'] = r.get('error')
            harness_errors.append('%s: %s' % (ob.name, (r.get('error') or '')[-1500:]))
            ev_obs.append(e)
            continue
        st = r['stats']
        for k in ('queries', 'paths', 'claims', 'discharged', 'inconclusive', 'reach_sat', 'violated'):
            tot[k] += st[k]
        tot['solver_s'] += st['solver_s']
        axioms |= set(r['axioms'])
        hashes.update(r['source_hashes'])
        e.update({'paths': st['paths'], 'queries': st['queries'], 'solver_s': round(st['solver_s'], 2),
                  'claims_checked': st['claims'], 'claims_discharged': st['discharged'],
                  'claims_inconclusive': st['inconclusive'], 'unknown_answers': st['unknown'],
                  'reachability_witnesses_sat': st['reach_sat'], 'exhaustive': bool(r['exhausted']),
                  'path_outcomes': r['path_outcomes'], 'per_claim': r['claims'],
                  'reasons': sorted(set(st['reasons']))[:8]})
        for s in r['samples'][:2]:
            s = dict(s)
            s['obligation'] = ob.name
            samples.append(s)
        # known findings still present?
        for kid, hit in r['known_hits'].items():
            k = [x for x in known if x['id'] == kid][0]
            ok = None
            if ob.native is not None:
                path = write_replay(prop, ob, {'claim': hit['claim'], 'inputs': hit['inputs'], 'detail': 'known finding %s' % kid})
                ok, out = replay_file(path)
            e.setdefault('known_findings', []).append({'id': kid, 'reproduced_natively': ok})
            if ok is False:
                harness_errors.append('%s: known finding %s found symbolically but does not reproduce natively\n%s' % (ob.name, kid, out[-800:]))
            elif kid not in known_printed:
                known_printed.add(kid)
                lines.append('KNOWN-FINDING: property=%s %s' % (prop, k['what']))
        # new violations
        # counterexamples whose two sides differ visibly first (those of an equality that differ by less than the replay's
        # tolerance cannot reproduce natively); one per claim name before a second of the same claim
        vs = sorted(r['violations'], key=lambda v: (0 if v.get('robust') else (1 if v.get('robust') is None else 2)))
        any_robust = any(v.get('robust') for v in vs)
        for v in vs[:4]:
            if any_robust and v.get('robust') is False:
                continue      # a visible counterexample exists for this obligation: the invisible ones add nothing
            path = write_replay(prop, ob, v)
            if ob.native is None:
                harness_errors.append('%s: counterexample for claim %s but no native replay defined (%s)' % (ob.name, v['claim'], path))
                continue
            ok, out = replay_file(path)
            for alt in (v.get('alt_inputs') or []):
                if ok:
                    break
                v2 = dict(v)
                v2['inputs'] = alt
                path2 = write_replay(prop, ob, v2)
                ok2, out2 = replay_file(path2)
                if ok2:
                    ok, out, path, v = ok2, out2, path2, v2
            if ok:
                violations += 1
                exit_code = EXIT_VIOLATION
                lines.append('VIOLATION property=%s replay=%s' % (prop, path))
                e.setdefault('violations', []).append({'claim': v['claim'], 'replay': path, 'inputs': v['inputs']})
            else:
                harness_errors.append('%s: counterexample for claim %s does not reproduce natively (%s)\n%s' % (ob.name, v['claim'], path, out[-800:]))
        if st['claims'] == 0 and not st['reasons'] and not r['violations'] and not ob.name.endswith('#split'):
            harness_errors.append('%s: vacuous -- no path reached a claim (paths=%d, outcomes=%r)' % (ob.name, st['paths'], r['path_outcomes']))
        if st['discharged'] == 0 and any('Unsupported' in x for x in st['reasons']) and not r['violations']:
            harness_errors.append('%s: nothing could be decided -- the engine does not support an operation the code now performs (%s)' % (ob.name, [x for x in st['reasons'] if 'Unsupported' in x][:2]))
        if st['paths'] < ob.min_paths and not ob.name.endswith('#split'):
            harness_errors.append('%s: only %d paths explored, expected >= %d' % (ob.name, st['paths'], ob.min_paths))
        concl = (st['claims'] > 0 and st['discharged'] == st['claims'] and r['exhausted']
                 and st['inconclusive'] == 0)
        e['result'] = ('discharged' if concl else
                       'violated' if r['violations'] else
                       'partially discharged / inconclusive')
        if concl:
            n_discharged_obs += 1
        ev_obs.append(e)

    if harness_errors and exit_code == EXIT_OK:
        exit_code = EXIT_HARNESS
    wall = time.time() - t0
    for ln in lines:
        print(ln)
    for he in harness_errors:
        print('HARNESS-ERROR property=%s %s' % (prop, he), file=sys.stderr)
    summary = ('%s tier=%s: %d/%d obligations fully discharged, %d claims (%d discharged, %d inconclusive), '
               '%d paths, %d solver queries, %.1fs solver, %.1fs wall'
               % (prop, tier, n_discharged_obs, len(obs), tot['claims'], tot['discharged'],
                  tot['inconclusive'], tot['paths'], tot['queries'], tot['solver_s'], wall))
    print(summary)
    if not args.no_evidence:
        meta = getattr(mod, 'META', {})
        ev = {
            'property_id': prop, 'tier': tier, 'seed': seed, 'level': 'other',
            'wall_s': round(wall, 2), 'violations': violations,
            'coverage': {
                'explanation': ('bounded symbolic execution of the real code (AST-instrumented import of %s, '
                                'regenerated this run): every feasible path within the stated bounds explored by '
                                'solver-decided forks, every end-of-path claim discharged by z3 (unsat of pc && !claim); '
                                'see obligations[] for functions, bounds, paths, queries and solver time' % REPO),
                'obligations': len(obs), 'discharged': n_discharged_obs,
                'evaluations': tot['queries'], 'distinct_nontrivial': tot['reach_sat'],
                'rule': ('evaluations = SMT queries issued; distinct_nontrivial = distinct feasible paths that reached a '
                         'claim and whose reachability twin (path condition alone) was sat'),
                'paths': tot['paths'], 'claims_checked': tot['claims'], 'claims_discharged': tot['discharged'],
                'claims_inconclusive': tot['inconclusive'], 'solver_s': round(tot['solver_s'], 2),
                'exhaustive': all(e.get('exhaustive', False) for e in ev_obs) and bool(ev_obs),
                'samples': samples[:8] or [{'note': 'no path reached a claim'}],
                'obligation_details': ev_obs,
                'functions_encoded': sorted({c for o in obs for c in o.code}),
                'source_hashes': hashes, 'axioms': sorted(axioms),
                'checker_cmd': './check %s --tier %s' % (prop, tier),
                'trusted_base': ['z3 %s' % _z3v(), 'symx shadow classes and shims (/verif/symx)',
                                 'AST instrumentation (/verif/symx/instrument.py)',
                                 'oracles written in the harness (/verif/harness/%s.py)' % prop.lower()],
                'known_findings_reported': sorted(known_printed),
                'harness_errors': harness_errors,
            },
            'assumptions': list(meta.get('assumptions', [])) + [
                'exact-real model of float arithmetic (floats lifted by shortest decimal repr) unless an obligation says FP',
                'bounds as stated per obligation; nothing is claimed outside them'],
        }
        os.makedirs(os.path.join(VERIF, 'evidence'), exist_ok=True)
        with open(os.path.join(VERIF, 'evidence', '%s.json' % prop), 'w') as fh:
            json.dump(ev, fh, indent=1, default=str)
    sys.exit(exit_code)


def _z3v():
    try:
        import z3
        return z3.get_version_string()
    except Exception:
        return '?'


if __name__ == '__main__':
    main()
