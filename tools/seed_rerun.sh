#!/bin/bash
# tools/seed_rerun.sh [tier] [name-filter]  -- apply every archived seeded change to a scratch worktree and run its property's check
TIER=${1:-quick}; FILTER=${2:-}
W=/tmp/mutA
[ -d $W ] || git -C /repo worktree add -f $W HEAD -q
for d in /verif/seeded/*/; do
  n=$(basename $d); [ -f $d/meta.json ] || continue
  case "$n" in *$FILTER*) ;; *) continue;; esac
  P=$(python3 -c "import json;print(json.load(open('$d/meta.json'))['property'])")
  git -C $W checkout -q -- . ; git -C $W checkout -q --detach $(git -C /repo rev-parse HEAD)
  if ! git -C $W apply $d/patch.diff 2>/dev/null; then echo "$n: PATCH DOES NOT APPLY"; continue; fi
  res=$(cd /verif && PROPKA_REPO=$W ./check $P --tier $TIER --no-evidence 2>&1 | grep -c "^VIOLATION")
  echo "$n: $P $TIER violations=$res"
  git -C $W checkout -q -- .
done
