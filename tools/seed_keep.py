#!/usr/bin/env python3
"""tools/seed_keep.py <PROP> <name> <caught: yes|no|after-strengthening> <caught_by> <needs...>
copy a confirmed seeded change from its scratch worktree into /verif/seeded/<name>/"""
import json, os, shutil, subprocess, sys
prop, name, caught, caught_by, needs = sys.argv[1:6]
wt = sys.argv[6] if len(sys.argv) > 6 else '/tmp/seed_%s' % prop
d = '/verif/seeded/%s' % name
os.makedirs(d, exist_ok=True)
diff = subprocess.run(['git', '-C', wt, 'diff', '--', 'propka'], capture_output=True, text=True).stdout
open(os.path.join(d, 'patch.diff'), 'w').write(diff)
shutil.copy(os.path.join(wt, '_seed', 'demo.py'), os.path.join(d, 'demo.py'))
if os.path.exists(os.path.join(wt, '_seed', 'notes.md')):
    shutil.copy(os.path.join(wt, '_seed', 'notes.md'), os.path.join(d, 'notes.md'))
base = subprocess.run(['git', '-C', '/repo', 'rev-parse', '--short', 'HEAD'], capture_output=True, text=True).stdout.strip()
meta = {
    'property': prop, 'origin': 'independent sub-agent given only the property text and a scratch worktree',
    'applies_to_repo_commit': subprocess.run(['git', '-C', wt, 'rev-parse', '--short', 'HEAD'], capture_output=True, text=True).stdout.strip(),
    'needs_to_manifest': needs,
    'confirmed': {'suite_with_change': '49 passed', 'demo_with_change': 'exit 1', 'demo_without_change': 'exit 0',
                  'how': 'tools/seed_eval.sh %s in the scratch worktree' % prop},
    'detected_by_check': caught, 'detected_by': caught_by,
    'apply': 'git -C /repo apply /verif/seeded/%s/patch.diff ; ./check %s ; git -C /repo checkout -- .' % (name, prop),
}
json.dump(meta, open(os.path.join(d, 'meta.json'), 'w'), indent=1)
print('kept', d)
