"""C10 -- folding free energy obeys proton linkage and is reported on the
requested grid."""
import itertools

from symx import And, Or, Not, Implies, eq, le, ge, lt, ite
from symx import markers
from symx.runner import Obligation
from . import common as H
from .c02 import mk_group, KINDS

PROPERTY = 'C10'
META = {'assumptions': [
    '10**x and log10 are axiomatised functions (coverage.axioms); derivative rules d10^x = ln10*10^x*dx, dlog10(a) = da/(a*ln10)',
]}


def mk_linkage(q, reference):
    def body(ctx):
        from symx.dual import Dual
        p = H.params()
        g = mk_group('COOGroup' if q < 0 else 'LYSGroup', 'ASP' if q < 0 else 'LYS', 10, 'CG' if q < 0 else 'NZ', q=q)
        g.pka_value = ctx.real('pka', -5, 20)
        g.model_pka = ctx.real('model_pka', -5, 20)
        from propka.determinant import Determinant
        other = mk_group('COOGroup', 'GLU', 20, 'CD', q=-1)
        g.determinants['coulomb'] = [Determinant(other, ctx.real('coul0', -3, 3)), Determinant(other, ctx.real('coul1', -3, 3))]
        ph = ctx.real('ph', -5, 20)
        if ctx.native:
            # central difference on the real code
            h = 1e-6
            e1 = g.calculate_folding_energy(p, ph=ph + h, reference=reference)
            e0 = g.calculate_folding_energy(p, ph=ph - h, reference=reference)
            deriv = (e1 - e0) / (2 * h)
            qf = g.calculate_charge(p, ph=ph, state='folded')
            qu = g.calculate_charge(p, ph=ph, state='unfolded')
            ctx.claim('proton-linkage', abs(deriv - 1.36 * (qf - qu)) < 1e-4, detail='d(dG)/dpH=%r 1.36*(Qf-Qu)=%r' % (deriv, 1.36 * (qf - qu)))
            return
        ctx.notes['e10_reciprocal'] = True
        e = g.calculate_folding_energy(p, ph=Dual(ph, 1.0), reference=reference)
        deriv = e.d if isinstance(e, Dual) else 0.0
        qf = g.calculate_charge(p, ph=ph, state='folded')
        qu = g.calculate_charge(p, ph=ph, state='unfolded')
        ctx.claim('proton-linkage', eq(deriv, 1.36 * (qf - qu)))
        # a non-titratable group contributes nothing
        g.titratable = False
        e0 = g.calculate_folding_energy(p, ph=Dual(ph, 1.0), reference=reference)
        ctx.claim('non-titratable-contributes-zero', (e0.v if isinstance(e0, Dual) else e0) == 0.0)
    return body


def mk_linkage_conformation(reference):
    def body(ctx):
        """conformation level: d/dpH of the summed folding energy == 1.36 x (sum folded - sum unfolded charge), where
        both sums are what calculate_folding_energy / calculate_charge of the conformation return: a group that does not
        enter the charge curves (bridged cysteine, unlisted residue, backbone) must not enter the folding energy either"""
        from symx.dual import Dual
        p = H.params()
        mol = H.molecule(p)
        conf = H.conformation('AVR', p=p, mol=mol)
        asp = mk_group('COOGroup', 'ASP', 10, 'CG', q=-1, p=p)
        asp.pka_value, asp.model_pka = ctx.real('asp_pka', 0, 10), 3.8
        kind = ctx.choice('second_group', ['bridged-CYS', 'unlisted-CYS', 'free-CYS', 'backbone', 'twin-with-the-same-label', 'discarded-coupled-group'])
        if kind == 'twin-with-the-same-label':
            # a second titratable group whose label coincides with the first one's (two copies of a ligand in one chain,
            # residues differing in insertion code only): both count, in the energy and in the charges
            g2 = mk_group('COOGroup', 'ASP', 10, 'CG', q=-1, p=p)
            g2.pka_value, g2.model_pka = ctx.real('twin_pka', 0, 10), 3.8
        elif kind == 'discarded-coupled-group':
            # a titratable group covalently coupled to the first one and discarded from the reported rows (N-terminal Asp,
            # conjugated ligand nitrogens): it still titrates -- it counts in the charges, so it counts in the energy
            g2 = mk_group('NtermGroup', 'ASP', 10, 'N', q=1, p=p)
            g2.pka_value, g2.model_pka = ctx.real('nterm_pka', 4, 6), 8.0
            g2.coupled_titrating_group = asp
            g2.covalently_coupled_groups = [asp]
            asp.covalently_coupled_groups = [g2]
        elif kind == 'backbone':
            g2 = mk_group('BBNGroup', 'ALA', 20, 'N', q=0, p=p)
            g2.titratable = False
        else:
            g2 = mk_group('CYSGroup', 'CYS', 20, 'SG', q=-1, p=p)
            g2.model_pka = 9.0
            g2.pka_value = 99.99 if kind == 'bridged-CYS' else ctx.real('cys_pka', 5, 14)
            g2.titratable = (kind == 'free-CYS')
            g2.atom.cysteine_bridge = (kind == 'bridged-CYS')
            g2.exclude_cys_from_results = (kind == 'unlisted-CYS')
        conf.groups.extend([asp, g2])
        # (discarded group: pH kept where its folded and unfolded charges differ visibly, so that a counterexample survives the native tolerance)
        ph = ctx.real('ph', 6, 9) if kind == 'discarded-coupled-group' else ctx.real('ph', 0, 14)
        if ctx.native:
            h = 1e-6
            d = (conf.calculate_folding_energy(ph=ph + h, reference=reference) - conf.calculate_folding_energy(ph=ph - h, reference=reference)) / (2 * h)
            u, f = conf.calculate_charge(p, ph=ph)
            ctx.claim('proton-linkage(conformation)', abs(d - 1.36 * (f - u)) < 1e-4, detail='second group %s: d(dG)/dpH=%r, 1.36*(Qf-Qu)=%r' % (kind, d, 1.36 * (f - u)))
            return
        ctx.notes['e10_reciprocal'] = True
        e = conf.calculate_folding_energy(ph=Dual(ph, 1.0), reference=reference)
        d = e.d if isinstance(e, Dual) else 0.0
        u, f = conf.calculate_charge(p, ph=ph)
        ctx.claim('proton-linkage(conformation)', eq(d, 1.36 * (f - u)), detail='second group %s' % kind)
    return body


def o_sum(ctx):
    """ConformationContainer.calculate_folding_energy sums the groups'
    contributions (per-group energies are free symbolic values here)"""
    mol = H.molecule()
    conf = H.conformation('AVR', mol=mol)
    vals = []
    for i in range(3):
        g = mk_group('COOGroup', 'ASP', 10 + i, 'CG')
        v = ctx.real('e%d' % i, -20, 20)
        g.calculate_folding_energy = (lambda v: (lambda parameters, ph=None, reference=None: v))(v)
        conf.groups.append(g)
        vals.append(v)
    tot = conf.calculate_folding_energy(ph=7.0, reference='neutral')
    ctx.claim('sum-over-groups', eq(tot, vals[0] + vals[1] + vals[2]))


def o_profile(ctx):
    """get_folding_profile: optimum = minimum of the computed profile; the
    80 % and stability ranges are min/max pH of the points satisfying their
    predicates (energies at the grid points are free symbolic values)"""
    mol = H.molecule()
    K = ctx.choice('points', [1, 3, 5])

    class Conf:
        def __init__(self):
            self.calls = []

        def calculate_folding_energy(self, ph=None, reference=None):
            v = ctx.real('dg_%d' % len(self.calls), -50, 50)
            self.calls.append((ph, v, reference))
            return v
    conf = Conf()
    mol.conformations['AVR'] = conf
    profile, opt, r80, stab = mol.get_folding_profile(conformation='AVR', reference='low-pH', grid=(2.0, 2.0 + (K - 1), 1.0))
    ctx.claim('one-point-per-grid-pH', [p[0] for p in profile] == [2.0 + i for i in range(K)])
    ctx.claim('reference-passed-through', all(c[2] == 'low-pH' for c in conf.calls))
    for (ph, dg), (cph, cv, _) in zip(profile, conf.calls):
        ctx.claim('profile-holds-the-computed-energy', And(ph == cph, eq(dg, cv)))
    ctx.claim('optimum-is-a-profile-point', any(opt[0] == p[0] and (opt[1] is p[1]) for p in profile))
    for p in profile:
        ctx.claim('optimum-is-minimal', le(opt[1], p[1]))
    within = [p for p in profile if bool(lt(p[1], 0.8 * opt[1]))]
    if within:
        ctx.claim('80pct-range', r80 == (min(p[0] for p in within), max(p[0] for p in within)))
    else:
        ctx.claim('80pct-range-empty', r80 == (None, None))
    neg = [p for p in profile if bool(lt(p[1], 0.0))]
    if neg:
        ctx.claim('stability-range', stab == (min(p[0] for p in neg), max(p[0] for p in neg)))
    else:
        ctx.claim('stability-range-empty', stab == (None, None))


def o_summary_lines(ctx):
    """get_folding_profile_section states the optimum, the 80 % range and the stability range exactly when
    get_folding_profile determined them -- whatever their values (an optimum at pH 0.0 or with free energy 0.0 is an
    optimum) -- and says 'Could not determine' exactly when it returned None"""
    import propka.output as O
    mol = H.molecule(options=H.Opts(window=(0.0, 14.0, 1.0), grid=(0.0, 14.0, 0.1)))

    def pair(tag, lo, hi, lo2=None, hi2=None):
        if not ctx.choice(tag + '_determined', [True, False]):
            return (None, None)
        return (ctx.real(tag + '_a', lo, hi), ctx.real(tag + '_b', lo if lo2 is None else lo2, hi if hi2 is None else hi2))
    opt = pair('optimum', -2, 16, -50, 50)
    r80 = pair('range80', -2, 16)
    stab = pair('stability', -2, 16)
    prof = [(0.0, ctx.real('dg0', -9, 9))]
    mol.get_folding_profile = lambda conformation='AVR', reference='neutral', grid=None: (prof, opt, r80, stab)
    markers.enable(ctx)
    text = markers.text_of(O.get_folding_profile_section(mol, conformation='AVR', reference='neutral', window=(0.0, 14.0, 1.0)))
    for tag, val, yes, no in (('optimum', opt, 'The pH of optimum stability is', 'Could not determine pH optimum'),
                              ('range80', r80, 'The free energy is within 80 % of maximum', 'Could not determine pH values where the free energy'),
                              ('stability', stab, 'The free energy is negative in the range', 'Could not determine the pH-range where the free')):
        lines = [l for l in text.split('\n') if l.startswith(yes)]
        if val[0] is None:
            ctx.claim(tag + ':undetermined-said-so', no in text and not lines)
        else:
            ctx.claim(tag + ':stated-when-determined', len(lines) == 1 and no not in text, detail='%s = %r' % (tag, val))
            if len(lines) == 1:
                f = [x for x in markers.fields(ctx, lines[0]) if x[1] is not None or ctx.native]
                if ctx.native:
                    f = [x for x in f if abs(x[0] - 80) > 1e-9 and abs(x[0] - 298) > 1e-9][:2]
                ctx.claim(tag + ':values-shown', len(f) >= 2 and bool(markers.shown(ctx, f[0][0], val[0], 1)) and bool(markers.shown(ctx, f[1][0], val[1], 1)),
                          detail='%r' % (lines[0],))
    return


def o_option_plumbing(ctx):
    """-g/--grid and -w/--window reach the calculation as given: the window is not altered by the grid and vice versa;
    and the printed profile rows are the grid points on the window lattice window_min + i*step (whole pipeline)"""
    import propka.lib as L
    import propka.output as O
    from . import micro as M
    case = ctx.choice('options', [([], (0.0, 14.0, 0.1), (0.0, 14.0, 1.0)),
                                  (['-g', '0.5', '13.5', '0.1'], (0.5, 13.5, 0.1), (0.0, 14.0, 1.0)),
                                  (['-g', '1', '14', '0.1', '-w', '0', '14', '2'], (1.0, 14.0, 0.1), (0.0, 14.0, 2.0)),
                                  (['-w', '2', '6', '0.5'], (0.0, 14.0, 0.1), (2.0, 6.0, 0.5)),
                                  (['-g', '2', '10', '0.5', '-w', '1', '11', '1'], (2.0, 10.0, 0.5), (1.0, 11.0, 1.0))])
    args, grid, window = case
    opts = L.loadOptions(args + ['x.pdb'])
    ctx.claim('grid-as-given', tuple(opts.grid) == grid, detail='%r -> %r' % (args, opts.grid))
    ctx.claim('window-as-given', tuple(opts.window) == window, detail='%r -> %r' % (args, opts.window))
    mol = M.run(M.text('pep8'), args=args)
    text = O.get_folding_profile_section(mol, conformation='AVR', reference='neutral', window=mol.options.window)
    printed = []
    for ln in text.split('\n')[2:]:
        if not ln.strip():
            break
        printed.append(round(float(ln.split()[0]), 2))
    want = []
    g = grid[0]
    i = 0
    while round(grid[0] + i * grid[2], 6) <= grid[1] + 1e-9:
        ph = round(grid[0] + i * grid[2], 6)
        k = (ph - window[0]) / window[2]
        if window[0] - 1e-9 <= ph <= window[1] + 1e-9 and abs(k - round(k)) < 1e-6:
            want.append(round(ph, 2))
        i += 1
    ctx.claim('printed-rows-on-the-window-lattice', printed == want, detail='%r: printed %r, expected %r' % (args, printed, want))


def o_profile_of_a_second_structure(ctx):
    """the folding profile, optimum and ranges a molecule reports are computed from ITS groups: after another structure
    was processed (and its profile asked for) in the same process, a molecule's profile equals what its own
    conformation's folding energies give on the grid"""
    from . import micro as M
    names = ['pep8', 'pair_GLU_ARG_TYR', 'pair_ASP_ARG']
    first = ctx.choice('first', names)
    second = ctx.choice('second', names)
    ref = ctx.choice('reference', ['neutral', 'low-pH'])
    m1 = M.run(M.text(first))
    m1.get_folding_profile(conformation='AVR', reference=ref, grid=(0.0, 14.0, 1.0))
    m2 = M.run(M.text(second))
    prof, opt, r80, stab = m2.get_folding_profile(conformation='AVR', reference=ref, grid=(0.0, 14.0, 1.0))
    own = [m2.conformations['AVR'].calculate_folding_energy(ph=float(p), reference=ref) for p in range(15)]
    ctx.claim('profile-is-the-molecules-own', len(prof) == 15 and all(abs(pt[1] - e) < 1e-9 for pt, e in zip(prof, own)),
              detail='%s after %s: %r vs %r' % (second, first, [round(pt[1], 3) for pt in prof][:5], [round(e, 3) for e in own][:5]))
    ctx.claim('optimum-is-the-molecules-own', abs(opt[1] - min(own)) < 1e-9)


def mk_grid_fp(K, slo=1, shi=200):
    def body(ctx):
        """make_grid in IEEE double arithmetic: for a decimal grid
        (min, min + K*step, step) given to two decimals the generator yields
        exactly K+1 points, the first being min"""
        import propka.lib as L
        from symx import fp
        a, ka = fp.decimal_input(ctx, 'min_hundredths', 0, 1400)
        s, ks = fp.decimal_input(ctx, 'step_hundredths', slo, shi)
        if ctx.native:
            mx = (ka + K * ks) / 100.0
        else:
            mx = fp.of_bv(ka + K * ks)
        pts = list(itertools.islice(L.make_grid(a, mx, s), K + 3))
        ctx.claim('exactly-K+1-points', len(pts) == K + 1, detail='%d points for K=%d' % (len(pts), K))
        if pts:
            ctx.claim('starts-at-min', pts[0] is a or bool(pts[0] == a))
    return body


def o_grid_exact(ctx):
    """make_grid in exact arithmetic: for max = min + (K + f)*step with
    0 <= f <= 0.99 the grid is min, min+step, ..., min+K*step: every point
    inside [min, max], the next one beyond max"""
    import propka.lib as L
    K = ctx.choice('K', [0, 1, 4])
    a = ctx.real('min', -5, 20)
    s = ctx.real('step', 0.01, 5)
    f = ctx.real('fraction_of_a_step_beyond_the_last_point', 0, 0.99)
    mx = a + K * s + f * s
    pts = list(itertools.islice(L.make_grid(a, mx, s), K + 3))
    ctx.claim('exactly-K+1-points', len(pts) == K + 1, detail='%d points, K=%d' % (len(pts), K))
    for i, x in enumerate(pts):
        ctx.claim('points-are-min-plus-i-step', eq(x, a + i * s))
        ctx.claim('no-point-beyond-max', le(x, mx))
    # an empty range gives an empty grid
    ctx.claim('empty-when-max-below-min', list(itertools.islice(L.make_grid(a, a - s, s), 2)) == [])


def mk_window(step_hundredths):
    def body(ctx):
        """get_folding_profile_section prints exactly the profile points that
        lie on the requested window lo + j*step <= hi"""
        import propka.output as O
        step = step_hundredths / 100.0
        lo_h = ctx.int('window_lo_hundredths', 0, 300)
        nwin = ctx.choice('window_points', [2, 3])
        lo = lo_h / 100.0 if ctx.native else (lo_h / 100)
        hi = lo + (nwin - 1) * step
        mol = H.molecule(options=H.Opts(window=(lo, hi, step), grid=(0.0, 14.0, 0.1)))
        # profile: 4 grid points at symbolic hundredths (strictly increasing)
        phs = []
        prev = None
        for i in range(4):
            k = ctx.int('ph%d_hundredths' % i, 0, 1400)
            if prev is not None:
                ctx.assume(lt(prev, k))
            prev = k
            phs.append(k)
        prof = [((k / 100.0 if ctx.native else k / 100), ctx.real('dg%d' % i, -9, 9)) for i, k in enumerate(phs)]
        mol.get_folding_profile = lambda conformation='AVR', reference='neutral', grid=None: (prof, (prof[0][0], prof[0][1]), (None, None), (None, None))
        markers.enable(ctx)
        text = markers.text_of(O.get_folding_profile_section(mol, conformation='AVR', reference='neutral', window=(lo, hi, step)))
        lines = text.split('\n')
        body_lines = []
        for ln in lines[2:]:
            if not ln.strip():
                break
            body_lines.append(ln)
        printed = []
        for ln in body_lines:
            f = markers.fields(ctx, ln)
            printed.append(f[0][0])
        # expected: profile points equal to lo + j*step for some j in range(nwin)
        for i, (ph, dg) in enumerate(prof):
            on_window = Or(*[eq(phs[i] if not ctx.native else phs[i], lo_h + j * step_hundredths) for j in range(nwin)])
            shown = Or(*[markers.shown(ctx, x, ph) for x in printed]) if printed else False
            ctx.claim('window-point-printed', Implies(on_window, shown), detail='profile point %d' % i)
            ctx.claim('off-window-point-not-printed', Implies(Not(on_window), Not(shown)), detail='profile point %d' % i)
    return body


def mk_window_on_the_real_grid(nwin):
    def body(ctx):
        """as O4-window, with the profile computed on the real pH grid (lib.make_grid(0, 14, 0.1): the doubles min + i*step with
        their floating-point noise, e.g. 7.800000000000001) and a window whose ends are the decimals the user types (tenths):
        exactly the rows lo, lo+0.1, ..., hi are printed -- both ends included"""
        import propka.output as O
        from propka.lib import make_grid
        lo_t = ctx.int('window_lo_tenths', 0, 140 - (nwin - 1))
        hi_t = lo_t + (nwin - 1)
        lo, hi = (lo_t / 10.0, hi_t / 10.0) if ctx.native else (lo_t / 10, hi_t / 10)
        mol = H.molecule(options=H.Opts(window=(lo, hi, 0.1), grid=(0.0, 14.0, 0.1)))
        prof = [(ph, 0.01 * i) for i, ph in enumerate(make_grid(0.0, 14.0, 0.1))]
        ctx.claim('grid-has-141-points', len(prof) == 141)
        mol.get_folding_profile = lambda conformation='AVR', reference='neutral', grid=None: (prof, (prof[0][0], prof[0][1]), (None, None), (None, None))
        markers.enable(ctx)
        text = markers.text_of(O.get_folding_profile_section(mol, conformation='AVR', reference='neutral', window=(lo, hi, 0.1)))
        body_lines = []
        for ln in text.split('\n')[2:]:
            if not ln.strip():
                break
            body_lines.append(ln)
        printed = [markers.fields(ctx, ln)[0][0] for ln in body_lines]
        ctx.claim('one-row-per-window-point', len(printed) == nwin, detail='%d rows for a window of %d points' % (len(printed), nwin))
        for j in (0, nwin - 1):
            want = (lo_t + j) / 10.0 if ctx.native else (lo_t + j) / 10
            ctx.claim('window-end-printed', Or(*[markers.shown(ctx, x, want) for x in printed]) if printed else False, detail='end %d' % j)
    return body


def obligations(tier):
    G = 'propka/group.py:Group.'
    obs = []
    for q in (-1, 1):
        for ref in ('neutral', 'low-pH'):
            obs.append(Obligation('O1-proton-linkage[q=%+d,%s]' % (q, ref), mk_linkage(q, ref),
                                  code=[G + 'calculate_folding_energy', G + 'calculate_charge'],
                                  bounds='charge %+d, reference %s; predicted pKa, model pKa, pH in [-5,20]; 2 Coulomb determinants in [-3,3]' % (q, ref),
                                  shims=['pH enters as a dual number (value, derivative 1): forward-mode differentiation through the real code'],
                                  claim_doc='d(dG)/d(pH) == 1.36*(Q_folded - Q_unfolded) with Q from calculate_charge on the same group',
                                  query_timeout_ms=60000, wall_s=200))
    for ref in ('neutral', 'low-pH'):
        obs.append(Obligation('O1-proton-linkage-conformation[%s]' % ref, mk_linkage_conformation(ref),
                              code=['propka/conformation_container.py:ConformationContainer.calculate_folding_energy', 'propka/conformation_container.py:ConformationContainer.calculate_charge',
                                    G + 'calculate_folding_energy', G + 'calculate_charge'],
                              bounds='a conformation with ASP (symbolic pKa) and a second group that is a bridged / unlisted / free cysteine, a backbone group, a twin with the same label, or a titrating group discarded by covalent coupling (that one: pKa in [4,6], pH in [6,9]); pH in [0,14]',
                              shims=['pH as a dual number'], claim_doc='d/dpH of the summed folding energy == 1.36 x (summed folded - unfolded charge)', query_timeout_ms=60000, wall_s=200))
    obs.append(Obligation('O1-sum-over-groups', o_sum, code=['propka/conformation_container.py:ConformationContainer.calculate_folding_energy'],
                          bounds='3 groups with free symbolic energies', claim_doc='sum over groups'))
    obs.append(Obligation('O2-profile-optimum-ranges', o_profile, code=['propka/molecular_container.py:MolecularContainer.get_folding_profile', 'propka/lib.py:make_grid'],
                          bounds='1, 3 or 5 grid points with free symbolic energies in [-50,50]', shims=['conformation energy method -> symbolic table'],
                          claim_doc='optimum = a minimal profile point; ranges = min/max pH of the points satisfying their predicate', max_paths=100000, shards=8))
    obs.append(Obligation('O2-summary-lines', o_summary_lines, code=['propka/output.py:get_folding_profile_section'],
                          bounds='optimum (pH in [-2,16], dG in [-50,50]), 80 % range and stability range each determined (symbolic values, 0.0 included) or None',
                          shims=['MolecularContainer.get_folding_profile -> the symbolic tuple'],
                          claim_doc='each of the three statements is printed with its values iff the quantity was determined; otherwise "Could not determine"', max_paths=2000))
    obs.append(Obligation('O5-option-plumbing', o_option_plumbing, code=['propka/lib.py:build_parser', 'propka/lib.py:loadOptions', 'propka/output.py:get_folding_profile_section', 'propka/run.py:single'],
                          bounds='5 command lines combining -g and -w (grid start off / on the window lattice, window wider or narrower than the grid)', kind='table-check',
                          claim_doc='options.grid and options.window are what was given; the printed rows are the grid points on window_min + i*step'))
    obs.append(Obligation('O6-profile-of-a-second-structure', o_profile_of_a_second_structure, code=['propka/molecular_container.py:MolecularContainer.get_folding_profile', 'propka/run.py:single'],
                          bounds='3 x 3 ordered pairs of micro-structures x 2 reference states, the second processed after the first in one process (18 concrete runs)', kind='table-check',
                          claim_doc='the second molecule\'s profile and optimum are what its own groups give'))
    obs.append(Obligation('O3-grid-exact', o_grid_exact, code=['propka/lib.py:make_grid'], bounds='K in {0,1,4}; min in [-5,20], step in [0.01,5], max = min + (K+f)*step with f in [0,0.99] (exact reals)',
                          claim_doc='K+1 points min + i*step, none beyond max', max_paths=2000))
    # QF_FP queries are discharged by the cvc5 binary (z3 needs minutes per query)
    ks = () if tier == 'quick' else (1, 2, 3, 5, 10)
    # the step range is cut into 10 parts (one query each: the whole range at once is not decided within 10 minutes by either solver)
    for K in ks:
      for slo in range(1, 200, 20):
        shi = slo + 19
        obs.append(Obligation('O3-grid-end-point-FP[K=%d,step %d-%d]' % (K, slo, shi), mk_grid_fp(K, slo, shi), code=['propka/lib.py:make_grid'],
                              bounds='IEEE double, RNE; min = a/100 (a in [0,1400]), step = s/100 (s in [%d,%d]), max = (a+%d*s)/100 as correctly rounded doubles' % (slo, shi, K),
                              claim_doc='exactly K+1 points (the end point of a decimal grid is not lost to accumulated rounding)',
                              query_timeout_ms=600000, wall_s=1500, max_paths=200, oneshot=True, backend='cvc5'))
    for st in ((100, 50, 200) if tier == 'quick' else (100, 50, 200, 25, 150)):
        obs.append(Obligation('O4-window-filter[step=%.2f]' % (st / 100.0), mk_window(st), code=['propka/output.py:get_folding_profile_section'],
                              bounds='window step %.2f, window start lo/100 with lo in [0,300], 2-3 window points; 4 profile points at symbolic '
                                     'hundredths in [0,14]' % (st / 100.0),
                              shims=['decimal.Decimal -> exact symbolic decimal', 'format markers', 'get_folding_profile -> symbolic profile'],
                              claim_doc='printed pH values == profile points lying on lo + j*step <= hi', max_paths=100000, shards=4, wall_s=170))
    for nwin in ((2, 11) if tier == 'quick' else (2, 3, 11, 41)):
        obs.append(Obligation('O4-window-on-the-real-grid[%d points]' % nwin, mk_window_on_the_real_grid(nwin), code=['propka/output.py:get_folding_profile_section', 'propka/lib.py:make_grid'],
                              bounds='profile on the real grid make_grid(0, 14, 0.1) (141 doubles with their rounding noise); window of %d points with step 0.1 whose start is lo/10, lo symbolic integer in [0, %d]' % (nwin, 140 - (nwin - 1)),
                              shims=['decimal.Decimal -> exact symbolic decimal', 'format markers', 'get_folding_profile -> the real grid with concrete values'],
                              claim_doc='exactly one row per window point; both window ends are printed', max_paths=5000, wall_s=170 if tier == 'quick' else 900, split_input=('window_lo_tenths', 8)))
    return obs


MANIFEST_ENTRY = {
    'level_note': ('O1: forward-mode derivative (dual numbers) through the real calculate_folding_energy, compared with the real calculate_charge; '
                   'transcendentals axiomatised. O2/O4: profile energies are free symbolic values. O3: exact-real grid, plus the IEEE-754 kernel '
                   '(z3 QF_FP on the real generator under Float64 shadow values) with decimal inputs of two digits; an FP query that times out is '
                   'reported as inconclusive, never as discharged.'),
}
