"""micro-structures: small real structures (fixtures cut from the
repository's test PDBs) run through the real pipeline, with a hook between
record reading and everything else that lets an obligation transform or
delete atoms symbolically."""
import io
import os

from symx import And, Or, Not, Implies, eq, le, ge, lt, is_sym
from . import common as H

FIX = os.path.join(os.path.dirname(os.path.dirname(os.path.abspath(__file__))), 'fixtures')

_TXT = {}


def text(name):
    """fixture text; 'name~-OD1-OD2@25' is the fixture `name` without the atoms OD1 and OD2 of residue 25
    (an incompletely modelled residue)"""
    if name not in _TXT:
        if '$' in name:
            # 'name$25': residue 25 becomes the C-terminus: the following residue's N is rewritten as its OXT, everything after is dropped
            base, resnum = name.split('$', 1)
            out, done = [], False
            for l in text(base).split('\n'):
                if not l.startswith('ATOM') or done:
                    continue
                n = int(l[22:26])
                if n <= int(resnum):
                    out.append(l)
                    last = l
                elif l[12:16].strip() == 'N':
                    out.append(l[:12] + ' OXT' + l[16:17] + last[17:27] + l[27:76] + ' O' + l[78:])
                    done = True
            _TXT[name] = '\n'.join(out) + '\nTER   \n'
        elif '/' in name:
            # 'name/57:CZ-NH1-NH2-NE': the whole structure turned (and put back on the 0.001 grid) so that the plane through the
            # first three listed atoms of residue 57 is z = const; the listed atoms then get exactly the same z: a planar group
            # lying exactly in a coordinate plane (the normals used as rotation axes have exactly zero components)
            base, spec = name.split('/', 1)
            resnum, names = spec.split(':')
            names = names.split('-')
            recs = [l for l in text(base).split('\n') if l]
            pos = {}
            for l in recs:
                if l[:6] in ('ATOM  ', 'HETATM') and int(l[22:26]) == int(resnum) and l[12:16].strip() in names:
                    pos[l[12:16].strip()] = [float(l[30:38]), float(l[38:46]), float(l[46:54])]
            a, b, c = [pos[n] for n in names[:3]]
            u = [b[i] - a[i] for i in range(3)]
            v = [c[i] - a[i] for i in range(3)]
            n = [u[1] * v[2] - u[2] * v[1], u[2] * v[0] - u[0] * v[2], u[0] * v[1] - u[1] * v[0]]
            ln = sum(x * x for x in n) ** 0.5
            n = [x / ln for x in n]
            # orthonormal frame (e1, e2, n): new coordinates = components along e1, e2, n
            h = [1.0, 0.0, 0.0] if abs(n[0]) < 0.9 else [0.0, 1.0, 0.0]
            d = sum(h[i] * n[i] for i in range(3))
            e1 = [h[i] - d * n[i] for i in range(3)]
            l1 = sum(x * x for x in e1) ** 0.5
            e1 = [x / l1 for x in e1]
            e2 = [n[1] * e1[2] - n[2] * e1[1], n[2] * e1[0] - n[0] * e1[2], n[0] * e1[1] - n[1] * e1[0]]
            zc = round(sum(a[i] * n[i] for i in range(3)), 3)
            out = []
            for l in recs:
                if l[:6] in ('ATOM  ', 'HETATM'):
                    q = [float(l[30:38]), float(l[38:46]), float(l[46:54])]
                    w = [round(sum(q[i] * e[i] for i in range(3)), 3) for e in (e1, e2, n)]
                    if int(l[22:26]) == int(resnum) and l[12:16].strip() in names:
                        w[2] = zc
                    l = l[:30] + '%8.3f%8.3f%8.3f' % tuple(w) + l[54:]
                out.append(l)
            _TXT[name] = '\n'.join(out) + '\n'
        elif '%' in name:
            # 'name%HG': the zinc ion of the fixture replaced by another configured ion (atom name, residue name and element columns):
            # ions whose symbol starts like a lighter element (HG / H, CA / C, NA / N)
            base, ion = name.split('%', 1)
            _TXT[name] = '\n'.join((l[:12] + '%-4s' % ion + l[16:17] + '%3s' % ion + l[20:76] + '%2s' % ion + l[78:]) if (l.startswith('HETATM') and l[17:20].strip() == 'ZN') else l
                                   for l in text(base).split('\n') if l) + '\n'
        elif '|' in name:
            # 'name|BC@37': the atoms of residue 37 exist only as alternate locations B and C (C displaced by (0.3, 0.2, -0.1));
            # everything else has no alternate-location tag: three conformations A, B, C, the first one lacking the residue
            base, spec = name.split('|', 1)
            tags, resnum = spec.split('@')
            out = []
            for l in text(base).split('\n'):
                if l[:6] in ('ATOM  ', 'HETATM') and int(l[22:26]) == int(resnum):
                    for i, t in enumerate(tags):
                        c = [float(l[30:38]) + 0.3 * i, float(l[38:46]) + 0.2 * i, float(l[46:54]) - 0.1 * i]
                        out.append(l[:16] + t + l[17:30] + '%8.3f%8.3f%8.3f' % tuple(c) + l[54:])
                elif l:
                    out.append(l)
            _TXT[name] = '\n'.join(out) + '\n'
        elif '^' in name:
            # 'name^MTX=L': the records of residue name MTX get chain identifier L (a hetero group on a chain of its own)
            base, spec = name.split('^', 1)
            resname, chain = spec.split('=')
            _TXT[name] = '\n'.join((l[:21] + chain + l[22:]) if (l[:6] in ('ATOM  ', 'HETATM') and l[17:20].strip() == resname) else l
                                   for l in text(base).split('\n') if l) + '\n'
        elif ':' in name:
            # 'name:41-43': only the residues numbered 41..43 of the fixture (a fragment), closed by a TER record
            base, rng = name.split(':', 1)
            lo, hi = [int(x) for x in rng.split('-')]
            _TXT[name] = '\n'.join(l for l in text(base).split('\n') if l[:6] in ('ATOM  ', 'HETATM') and lo <= int(l[22:26]) <= hi) + '\nTER   \n'
        elif '~' in name:
            base, spec = name.split('~', 1)
            atoms, resnum = spec.split('@')
            chain = None
            if resnum[-1].isalpha():      # '...@24B': residue 24 of chain B only
                resnum, chain = resnum[:-1], resnum[-1]
            drop = set(x for x in atoms.split('-') if x)
            _TXT[name] = '\n'.join(l for l in text(base).split('\n')
                                   if l and not (l[:6] in ('ATOM  ', 'HETATM') and int(l[22:26]) == int(resnum) and l[12:16].strip() in drop
                                                 and (chain is None or l[21] == chain))) + '\n'
        else:
            _TXT[name] = open(os.path.join(FIX, name + '.pdb')).read()
    return _TXT[name]


# parameter override that switches the burial-dependent code paths on in
# structures of a few dozen atoms (shipped values: Nmin 280, Nmax 560)
BURIED = {'Nmin': 6, 'Nmax': 30}
# burial switched on AND the four coupling thresholds relaxed, so that pairs of the micro-structures are found to be
# non-covalently coupled (swap, alternative state, -d output paths become active); a configuration a user can write
COUPLED = dict(BURIED, min_interaction_energy=0.01, max_intrinsic_pka_diff=20.0, min_swap_pka_shift=0.0, max_free_energy_diff=50.0)


def run(pdb_text, args=(), transform=None, keep=None, write=False, after_read=None, params=None):
    """propka.run.single on a text; `transform(atom)` is applied to every atom
    right after the records were read (before topping up, bonding,
    protonation, group extraction); `keep(atom)` False deletes the atom."""
    import propka.input as I
    import propka.run as R
    orig = I.read_pdb

    def patched(pdb_file, parameters, molecule):
        confs, names = orig(pdb_file, parameters, molecule)
        for c in confs.values():
            if keep is not None:
                c.atoms = [a for a in c.atoms if keep(a)]
            if transform is not None:
                for a in c.atoms:
                    transform(a)
        if keep is not None:
            for n in [n for n in names if not confs[n].atoms]:
                del confs[n]
                names.remove(n)
        if after_read is not None:
            after_read(confs, names)
        return confs, names
    I.read_pdb = patched
    orig_rpf = R.read_parameter_file
    if params:
        def rpf(input_file, parameters):
            p = orig_rpf(input_file, parameters)
            for k_, v_ in params.items():
                setattr(p, k_, v_)
            return p
        R.read_parameter_file = rpf
    try:
        return R.single('micro.pdb', optargs=list(args) + ['--quiet'], stream=io.StringIO(pdb_text), write_pka=write)
    finally:
        I.read_pdb = orig
        R.read_parameter_file = orig_rpf


def akey(a):
    return (a.chain_id, a.res_num, a.icode.strip() if isinstance(a.icode, str) else a.icode, a.name)


def bonds(mol, conf='1A', heavy_only=True):
    out = {}
    for a in mol.conformations[conf].atoms:
        if heavy_only and a.element == 'H':
            continue
        out[akey(a)] = sorted(akey(b) for b in a.bonded_atoms if not (heavy_only and b.element == 'H'))
    return out


def groups(mol, conf='1A'):
    out = {}
    for g in mol.conformations[conf].groups:
        out.setdefault((g.label, g.type), []).append(g)
    return out


def hydrogens(mol, conf='1A'):
    return {akey(a): (a.x, a.y, a.z, akey(a.bonded_atoms[0]) if a.bonded_atoms else None)
            for a in mol.conformations[conf].atoms if a.element == 'H'}


def compare_heavy(ctx, tag, base, other, conf='1A'):
    """everything that depends only on heavy atoms: bonds, groups,
    desolvation, buried"""
    ctx.claim(tag + ':bonds', bonds(base, conf) == bonds(other, conf))
    gb, go = groups(base, conf), groups(other, conf)
    ctx.claim(tag + ':same-groups', sorted(gb) == sorted(go), detail='%r vs %r' % (sorted(gb), sorted(go)))
    for k in gb:
        if k not in go or len(gb[k]) != len(go[k]):
            continue
        for a, b in zip(gb[k], go[k]):
            ctx.claim(tag + ':num_volume', eq(a.num_volume, b.num_volume), detail=repr(k))
            ctx.claim(tag + ':buried', eq(a.buried, b.buried), detail=repr(k))
            ctx.claim(tag + ':energy_volume', eq(a.energy_volume, b.energy_volume), detail=repr(k))
            # the local term (backbone reorganisation) is computed from backbone C=O and the group's heavy atoms
            ctx.claim(tag + ':energy_local', near(a.energy_local, b.energy_local, 1e-9) if not (is_sym(a.energy_local) or is_sym(b.energy_local)) else eq(a.energy_local, b.energy_local), detail='%r: %r vs %r' % (k, a.energy_local, b.energy_local))
            ctx.claim(tag + ':titratable-and-model-pka', a.titratable == b.titratable and a.model_pka == b.model_pka)


def near(a, b, tol):
    if not is_sym(a) and not is_sym(b):
        return abs(a - b) <= tol
    return And(le(a - b, tol), le(b - a, tol))


def compare_results(ctx, tag, base, other, conf='1A', tol=None):
    """pKa values and determinants (exactly, or within tol)"""
    gb, go = groups(base, conf), groups(other, conf)
    for k in gb:
        if k not in go or len(gb[k]) != len(go[k]):
            continue
        for a, b in zip(gb[k], go[k]):
            if tol is None:
                ctx.claim(tag + ':pka', eq(a.pka_value, b.pka_value), detail='%r: %r vs %r' % (k, a.pka_value, b.pka_value))
            else:
                ctx.claim(tag + ':pka', near(a.pka_value, b.pka_value, tol), detail='%r: %r vs %r' % (k, a.pka_value, b.pka_value))
            for kind in ('sidechain', 'backbone', 'coulomb'):
                da = [(d.label, d.value) for d in a.determinants[kind]]
                db = [(d.label, d.value) for d in b.determinants[kind]]
                if tol is None:
                    ctx.claim(tag + ':determinant-partners:' + kind, [x[0] for x in da] == [x[0] for x in db],
                              detail='%r %s: %r vs %r' % (k, kind, da, db))
                if [x[0] for x in da] == [x[0] for x in db]:
                    for (la, va), (lb, vb) in zip(da, db):
                        ctx.claim(tag + ':determinant-value:' + kind,
                                  eq(va, vb) if tol is None else near(va, vb, tol), detail='%r %s %s: %r vs %r' % (k, kind, la, va, vb))


def reported(mol):
    """labels in the summary section of the AVR conformation"""
    import propka.output as O
    s = O.get_summary_section(mol, 'AVR', mol.version.parameters)
    out = []
    for l in s.split('\n'):
        if l.startswith('   ') and len(l) > 30 and l[12] == ' ' and l[3:12].strip() and 'Group' not in l:
            out.append(l[3:12])
    return out


# -- multi-conformation variants built from the fixtures ------------------------------------

def renumber(txt, start, chain=None):
    """renumber the residues of a fixture consecutively from `start` (optionally re-chain)"""
    out, last, cur = [], None, start - 1
    for l in txt.split('\n'):
        if l.startswith('ATOM') or l.startswith('HETATM'):
            key = l[22:27]
            if key != last:
                cur += 1
                last = key
            l = l[:21] + (chain or l[21]) + '%4d' % cur + ' ' + l[27:]
        if l:
            out.append(l)
    return '\n'.join(out) + '\n'


def moved(txt, resnum, atom_name, vec):
    """one atom displaced by vec"""
    out = []
    for l in txt.split('\n'):
        if l[:6] in ('ATOM  ', 'HETATM') and int(l[22:26]) == resnum and l[12:16].strip() == atom_name:
            c = [float(l[30:38]) + vec[0], float(l[38:46]) + vec[1], float(l[46:54]) + vec[2]]
            l = l[:30] + '%8.3f%8.3f%8.3f' % tuple(c) + l[54:]
        if l:
            out.append(l)
    return '\n'.join(out) + '\n'


def renumber_keep_altloc(txt, start):
    """renumber residues consecutively from `start` keeping every other column (alternate-location tags included)"""
    out, last, cur = [], None, start - 1
    for l in txt.split('\n'):
        if l[:6] in ('ATOM  ', 'HETATM'):
            key = l[22:27]
            if key != last:
                cur += 1
                last = key
            l = l[:22] + '%4d' % cur + l[26:]
        if l:
            out.append(l)
    return '\n'.join(out) + '\n'


def models(*texts):
    """several structures as MODEL 1..n of one file"""
    out = []
    for i, t in enumerate(texts):
        out.append('MODEL     %4d\n' % (i + 1))
        out.append(t if t.endswith('\n') else t + '\n')
        out.append('ENDMDL\n')
    return ''.join(out)


def altloc(txt, resnum, atom_name, shift=(0.3, 0.2, -0.1)):
    """give one atom two alternate locations A / B (B displaced by `shift`)"""
    out = []
    for l in txt.split('\n'):
        if l.startswith('ATOM') and int(l[22:26]) == resnum and l[12:16].strip() == atom_name:
            x, y, z = float(l[30:38]), float(l[38:46]), float(l[46:54])
            out.append(l[:16] + 'A' + l[17:])
            out.append(l[:16] + 'B' + l[17:30] + '%8.3f%8.3f%8.3f' % (x + shift[0], y + shift[1], z + shift[2]) + l[54:])
        elif l:
            out.append(l)
    return '\n'.join(out) + '\n'
