"""symx.core -- shadow symbolic execution over z3 terms.

The code under test is the real propka code (imported from the repository's
current working tree, see symx.instrument).  Numeric leaves are replaced by
SReal / SInt / SBool wrappers around z3 terms; every ``bool()`` on a symbolic
condition is a fork decided by the SMT solver.  Paths are explored by
decision-prefix DFS with re-execution (Explorer.run).

Exact-real model: Python floats are lifted to the rational denoted by their
shortest decimal repr; all arithmetic is exact.
"""
import fractions
import math as _math
import os
import re
import time

import z3

Fraction = fractions.Fraction


class Abort(BaseException):
    """Path is infeasible / pruned (BaseException: must not be caught by the
    code under test)."""


class Unsupported(Exception):
    """An operation outside the supported subset: the obligation becomes
    inconclusive (never silently skipped)."""


class Budget(BaseException):
    """A budget (paths / concretisation cap) was exhausted."""


CUR = None  # the active Ctx


def cur():
    if CUR is None:
        raise RuntimeError("no active symbolic context")
    return CUR


# --------------------------------------------------------------------------
# lifting
# --------------------------------------------------------------------------

def frac_of_float(v):
    if v != v or v in (float('inf'), float('-inf')):
        raise Unsupported("non-finite float %r in symbolic arithmetic" % (v,))
    return Fraction(repr(v))


def rv(v):
    """z3 Real numeral from python number."""
    if isinstance(v, bool):
        v = int(v)
    if isinstance(v, int):
        return z3.RealVal(v)
    if isinstance(v, float):
        f = frac_of_float(v)
        return z3.RealVal(str(f))
    if isinstance(v, Fraction):
        return z3.RealVal(str(v))
    raise TypeError(type(v))


def is_sym(v):
    return isinstance(v, (SReal, SBool))


def lift_real(v):
    """-> z3 Real term"""
    if isinstance(v, SInt):
        return z3.ToReal(v.e)
    if isinstance(v, SReal):
        return v.e
    if isinstance(v, SBool):
        return z3.If(v.e, z3.RealVal(1), z3.RealVal(0))
    if isinstance(v, (int, float, Fraction)):
        return rv(v)
    raise TypeError("cannot lift %r" % (type(v),))


def lift_int(v):
    if isinstance(v, SInt):
        return v.e
    if isinstance(v, bool):
        return z3.IntVal(int(v))
    if isinstance(v, int):
        return z3.IntVal(v)
    raise TypeError("cannot lift %r to Int" % (type(v),))


def lift_bool(v):
    if isinstance(v, SBool):
        return v.e
    if isinstance(v, bool):
        return z3.BoolVal(v)
    raise TypeError("cannot lift %r to Bool" % (type(v),))


def _num(v):
    return isinstance(v, (int, float, Fraction, SReal)) and not isinstance(v, SBool)


def val_of(term):
    """python value of a z3 numeral (after simplify) or None."""
    t = z3.simplify(term)
    if z3.is_int_value(t):
        return t.as_long()
    if z3.is_rational_value(t):
        return Fraction(t.numerator_as_long(), t.denominator_as_long())
    if z3.is_true(t):
        return True
    if z3.is_false(t):
        return False
    return None


# --------------------------------------------------------------------------
# symbolic values
# --------------------------------------------------------------------------

_INF = float('inf')


class SBool:
    __slots__ = ('e', 'gap')

    def __init__(self, e, gap=None):
        self.e = e
        # for an equality claim: (lhs - rhs), so that a counterexample with a visible gap can be preferred over one that
        # differs by less than any tolerance a native replay could see
        self.gap = gap

    def __bool__(self):
        return cur().branch(self.e)

    def __and__(self, o):
        return SBool(z3.And(self.e, lift_bool(o)))
    __rand__ = __and__

    def __or__(self, o):
        return SBool(z3.Or(self.e, lift_bool(o)))
    __ror__ = __or__

    def __invert__(self):
        return SBool(z3.Not(self.e))

    def __eq__(self, o):
        return SBool(self.e == lift_bool(o))

    def __ne__(self, o):
        return SBool(self.e != lift_bool(o))
    __hash__ = None

    def __repr__(self):
        return 'SBool(%s)' % (self.e,)


def _mk(a, b, fi, fr):
    """apply integer op if both are int-sorted else real op."""
    if isinstance(a, SInt) and (isinstance(b, SInt) or (isinstance(b, int) and not isinstance(b, bool))):
        return SInt(fi(a.e, lift_int(b)))
    if isinstance(b, SInt) and isinstance(a, int) and not isinstance(a, bool):
        return SInt(fi(lift_int(a), b.e))
    return SReal(fr(lift_real(a), lift_real(b)))


class SReal:
    """z3 Real term with python-number behaviour (exact-real float model)."""
    __slots__ = ('e',)

    def __init__(self, e):
        self.e = e

    # -- arithmetic
    def __add__(self, o):
        if not _num(o):
            return NotImplemented
        return _mk(self, o, lambda a, b: a + b, lambda a, b: a + b)

    def __radd__(self, o):
        if not _num(o):
            return NotImplemented
        return _mk(o, self, lambda a, b: a + b, lambda a, b: a + b)

    def __sub__(self, o):
        if not _num(o):
            return NotImplemented
        r = _mk(self, o, lambda a, b: a - b, lambda a, b: a - b)
        if isinstance(o, SReal):
            return demote(r)
        return r

    def __rsub__(self, o):
        if not _num(o):
            return NotImplemented
        return _mk(o, self, lambda a, b: a - b, lambda a, b: a - b)

    def __mul__(self, o):
        if not _num(o):
            return NotImplemented
        if isinstance(o, SReal) and CUR is not None:
            CUR.nonlinear = True
        return _mk(self, o, lambda a, b: a * b, lambda a, b: a * b)

    def __rmul__(self, o):
        if not _num(o):
            return NotImplemented
        return _mk(o, self, lambda a, b: a * b, lambda a, b: a * b)

    def __truediv__(self, o):
        if not _num(o):
            return NotImplemented
        return sdiv(self, o)

    def __rtruediv__(self, o):
        if not _num(o):
            return NotImplemented
        return sdiv(o, self)

    def __neg__(self):
        return type(self)(-self.e) if isinstance(self, SInt) else SReal(-self.e)

    def __pos__(self):
        return self

    def __abs__(self):
        e = self.e
        r = z3.If(e >= 0, e, -e)
        return SInt(r) if isinstance(self, SInt) else SReal(r)

    def __pow__(self, o):
        return spow(self, o)

    def __rpow__(self, o):
        return spow(o, self)

    # -- comparisons
    def _cmp(self, o, f):
        if not _num(o):
            return NotImplemented
        if isinstance(o, float) and (o == _INF or o == -_INF):
            # comparison of a (finite) symbolic real with an infinite constant
            return bool(f(0.0, o))
        if isinstance(self, SInt) and (isinstance(o, SInt) or (isinstance(o, int) and not isinstance(o, bool))):
            return SBool(f(self.e, lift_int(o)))
        return SBool(f(lift_real(self), lift_real(o)))

    def __lt__(self, o):
        return self._cmp(o, lambda a, b: a < b)

    def __le__(self, o):
        return self._cmp(o, lambda a, b: a <= b)

    def __gt__(self, o):
        return self._cmp(o, lambda a, b: a > b)

    def __ge__(self, o):
        return self._cmp(o, lambda a, b: a >= b)

    def __eq__(self, o):
        if o is None or isinstance(o, str):
            return False
        r = self._cmp(o, lambda a, b: a == b)
        return False if r is NotImplemented else r

    def __ne__(self, o):
        if o is None or isinstance(o, str):
            return True
        r = self._cmp(o, lambda a, b: a != b)
        return True if r is NotImplemented else r

    def __hash__(self):
        # a symbolic real used as a dict/set key: pinned to a model value by
        # fork (a few values only; more make the obligation inconclusive)
        v = cur().concretize_real(lift_real(self))
        return hash(float(v)) if v.denominator != 1 else hash(int(v))

    def __bool__(self):
        return cur().branch(self.e != 0)

    # -- conversions
    def __float__(self):
        raise Unsupported("float() of symbolic value reached C level (missing shim)")

    def __int__(self):
        raise Unsupported("int() of symbolic value reached C level (missing shim)")

    def __floor__(self):
        return cur().concretize_floor(lift_real(self))

    def __ceil__(self):
        return -cur().concretize_floor(-lift_real(self))

    def __round__(self, n=None):
        return sround(self, n)

    def __trunc__(self):
        return strunc(self)

    def __format__(self, spec):
        return cur().format_hook(self, spec)

    def __repr__(self):
        return 'S(%s)' % (z3.simplify(self.e),)


def demote(r):
    """a symbolic difference that cancels to a numeral becomes a python
    number again (coordinate differences of a rigidly shifted structure), so
    that everything computed from it runs natively"""
    t = z3.simplify(r.e)
    if z3.is_int_value(t):
        return t.as_long()
    if z3.is_rational_value(t):
        f = Fraction(t.numerator_as_long(), t.denominator_as_long())
        return float(f) if not isinstance(r, SInt) else int(f)
    r.e = t
    return r


class SInt(SReal):
    """z3 Int term with python-int behaviour."""
    __slots__ = ()

    def __floordiv__(self, o):
        if isinstance(o, SInt) or (isinstance(o, int) and not isinstance(o, bool)):
            d = lift_int(o)
            if isinstance(o, SInt):
                if SBool(d == 0):
                    raise ZeroDivisionError("integer division by zero")
            elif o == 0:
                raise ZeroDivisionError("integer division by zero")
            return SInt(py_floordiv(self.e, d))
        raise Unsupported("SInt // non-int")

    def __rfloordiv__(self, o):
        if isinstance(o, int) and not isinstance(o, bool):
            if SBool(self.e == 0):
                raise ZeroDivisionError("integer division by zero")
            return SInt(py_floordiv(lift_int(o), self.e))
        raise Unsupported("non-int // SInt")

    def __mod__(self, o):
        if isinstance(o, SInt) or (isinstance(o, int) and not isinstance(o, bool)):
            d = lift_int(o)
            if isinstance(o, SInt):
                if SBool(d == 0):
                    raise ZeroDivisionError("integer modulo by zero")
            elif o == 0:
                raise ZeroDivisionError("integer modulo by zero")
            return SInt(self.e - d * py_floordiv(self.e, d))
        raise Unsupported("SInt % non-int")

    def __index__(self):
        return cur().concretize_int(self.e, 'index')

    def __hash__(self):
        # dict/set key: concretise by fork (value is then pinned on the path)
        return hash(cur().concretize_int(self.e, 'hash'))

    def __floor__(self):
        return self

    def __ceil__(self):
        return self

    def __round__(self, n=None):
        return self

    def __trunc__(self):
        return self


def py_floordiv(a, d):
    """Python floor division on z3 Ints (z3 div is Euclidean)."""
    if z3.is_int_value(d):
        if d.as_long() > 0:
            return a / d
        return (-a) / (-d)
    return z3.If(d > 0, a / d, (-a) / (-d))


def sdiv(n, d):
    """python true division, exact-real; ZeroDivisionError is a fork."""
    if isinstance(d, (int, float, Fraction)):
        if d == 0:
            raise ZeroDivisionError("float division by zero")
        return SReal(lift_real(n) / lift_real(d))
    de = lift_real(d)
    dv = val_of(de)
    if dv is not None:
        if dv == 0:
            raise ZeroDivisionError("float division by zero")
        return SReal(lift_real(n) / rv(dv))
    if SBool(de == 0):
        raise ZeroDivisionError("float division by zero")
    ne = lift_real(n)
    return SReal(cur().purify_div(ne, de))


def ssqrt(a):
    """math.sqrt in the exact-real model: fresh r >= 0 with r*r == a
    (memoised per path on the simplified radicand)."""
    if isinstance(a, (int, float, Fraction)):
        return _math.sqrt(a)
    ae = lift_real(a)
    v = val_of(ae)
    if v is not None:
        if v < 0:
            raise ValueError("math domain error")
        # exact rational roots stay rational
        n, d = v.numerator, v.denominator
        rn, rd = _math.isqrt(n), _math.isqrt(d)
        if rn * rn == n and rd * rd == d:
            return SReal(rv(Fraction(rn, rd)))
    if SBool(ae < 0):
        raise ValueError("math domain error")
    return SReal(cur().purify_sqrt(ae))


def spow(b, x):
    if isinstance(x, (int,)) and not isinstance(x, bool) and is_sym(b):
        if x == 0:
            return 1.0 if not isinstance(b, SInt) else 1
        if 0 < x <= 8:
            r = b
            for _ in range(x - 1):
                r = r * b
            return r
        if x < 0:
            return 1.0 / spow(b, -x)
    if isinstance(x, float) and is_sym(b):
        if x == 0.5:
            return ssqrt(b)
        if x == int(x) and 0 <= x <= 8:
            r = spow(b, int(x))
            return r if not isinstance(r, SInt) else SReal(lift_real(r))
    if is_sym(x) and isinstance(b, (int, float)) and b == 10:
        return cur().e10(lift_real(x))
    raise Unsupported("power %r ** %r" % (b, x))


def scaled_int(term):
    """(k, s): z3 Int term k and Fraction s with term == ToReal(k)*s, for
    terms that are rational-linear combinations of integers; else None.
    Keeps rounding / truncation of decimal quantities inside linear integer
    arithmetic."""
    t = z3.simplify(term)
    return _scaled(t)


def _lcm(a, b):
    return a * b // _math.gcd(a, b)


def _scaled(t):
    if z3.is_rational_value(t):
        return z3.IntVal(t.numerator_as_long()), Fraction(1, t.denominator_as_long())
    if z3.is_int_value(t):
        return t, Fraction(1)
    if not z3.is_app(t):
        return None
    k = t.decl().kind()
    if k == z3.Z3_OP_TO_REAL:
        return t.arg(0), Fraction(1)
    if k == z3.Z3_OP_UMINUS:
        r = _scaled(t.arg(0))
        return None if r is None else (-r[0], r[1])
    if k in (z3.Z3_OP_ADD, z3.Z3_OP_SUB):
        parts = [_scaled(a) for a in t.children()]
        if any(p is None for p in parts):
            return None
        L = 1
        for _, s in parts:
            L = _lcm(L, s.denominator)
        tot = None
        for i, (ke, s) in enumerate(parts):
            m = s.numerator * (L // s.denominator)
            term = ke * m if m != 1 else ke
            if tot is None:
                tot = term
            elif k == z3.Z3_OP_SUB:
                tot = tot - term
            else:
                tot = tot + term
        return tot, Fraction(1, L)
    if k == z3.Z3_OP_MUL:
        ch = t.children()
        const = Fraction(1)
        rest = []
        for a in ch:
            if z3.is_rational_value(a):
                const *= Fraction(a.numerator_as_long(), a.denominator_as_long())
            else:
                rest.append(a)
        if len(rest) != 1:
            return None
        r = _scaled(rest[0])
        if r is None:
            return None
        if const < 0:
            return -r[0], r[1] * (-const)
        return r[0], r[1] * const
    if k == z3.Z3_OP_DIV:
        a, b = t.children()
        if not z3.is_rational_value(b):
            return None
        r = _scaled(a)
        if r is None:
            return None
        d = Fraction(b.numerator_as_long(), b.denominator_as_long())
        if d == 0:
            return None
        if d < 0:
            return -r[0], r[1] / (-d)
        return r[0], r[1] / d
    return None


def linear_form(term):
    """([(int term, Fraction coefficient)], Fraction constant) with
    term == sum coeff*ToReal(int term) + constant, or None"""
    t = z3.simplify(term)
    return _lin(t)


def _lin(t):
    if z3.is_rational_value(t):
        return [], Fraction(t.numerator_as_long(), t.denominator_as_long())
    if z3.is_int_value(t):
        return [], Fraction(t.as_long())
    if not z3.is_app(t):
        return None
    k = t.decl().kind()
    if k == z3.Z3_OP_TO_REAL:
        return [(t.arg(0), Fraction(1))], Fraction(0)
    if k == z3.Z3_OP_UMINUS:
        r = _lin(t.arg(0))
        return None if r is None else ([(e, -cf) for e, cf in r[0]], -r[1])
    if k in (z3.Z3_OP_ADD, z3.Z3_OP_SUB):
        terms, const = [], Fraction(0)
        for i, a in enumerate(t.children()):
            r = _lin(a)
            if r is None:
                return None
            sg = -1 if (k == z3.Z3_OP_SUB and i > 0) else 1
            terms += [(e, sg * cf) for e, cf in r[0]]
            const += sg * r[1]
        return terms, const
    if k == z3.Z3_OP_MUL:
        cst = Fraction(1)
        rest = []
        for a in t.children():
            if z3.is_rational_value(a):
                cst *= Fraction(a.numerator_as_long(), a.denominator_as_long())
            else:
                rest.append(a)
        if len(rest) != 1:
            return None
        r = _lin(rest[0])
        return None if r is None else ([(e, cf * cst) for e, cf in r[0]], r[1] * cst)
    if k == z3.Z3_OP_DIV:
        a, b = t.children()
        if not z3.is_rational_value(b):
            return None
        d = Fraction(b.numerator_as_long(), b.denominator_as_long())
        r = _lin(a)
        if r is None or d == 0:
            return None
        return [(e, cf / d) for e, cf in r[0]], r[1] / d
    return None


def sround(x, n=None):
    """round(): nearest multiple of 10**-n.  Model: floor(x*10^n + 1/2)/10^n
    (differs from Python's result only at exact ties and by the usual
    double-rounding effects; both are measure-zero in the exact-real model)."""
    if not is_sym(x):
        return round(x, n) if n is not None else round(x)
    if isinstance(x, SInt):
        return x
    if n is None:
        return SInt(z3.ToInt(lift_real(x) + rv(Fraction(1, 2))))
    if is_sym(n):
        raise Unsupported("round with symbolic ndigits")
    sc = 10 ** n
    lin = linear_form(lift_real(x))
    if lin is not None:
        terms, const = lin
        if terms and all((cf * sc).denominator == 1 for _, cf in terms):
            # x = (multiple of 10^-n, symbolic) + constant: rounding to n
            # decimals commutes with adding a multiple of 10^-n
            cr = Fraction(_math.floor(const * sc + Fraction(1, 2)), sc)
            e = rv(cr)
            for ke, cf in terms:
                e = e + z3.ToReal(ke) * rv(cf)
            return SReal(e)
    si = scaled_int(lift_real(x))
    if si is not None:
        ke, s = si
        m = s * sc                      # x * 10^n == ke * m
        if m.denominator == 1:
            return x                    # already a multiple of 10^-n
        p, q = m.numerator, m.denominator
        r = (2 * p * ke + q) / (2 * q)  # floor(ke*p/q + 1/2), integer arithmetic
        return SReal(z3.ToReal(r) / rv(sc))
    k = z3.ToInt(lift_real(x) * rv(sc) + rv(Fraction(1, 2)))
    return SReal(z3.ToReal(k) / rv(sc))


def strunc(x):
    e = lift_real(x)
    si = scaled_int(e)
    if si is not None:
        ke, s = si
        p, q = s.numerator, s.denominator
        num = ke * p if p != 1 else ke
        if q == 1:
            return SInt(num)
        return SInt(z3.If(num >= 0, num / q, -((-num) / q)))
    return SInt(z3.If(e >= 0, z3.ToInt(e), -z3.ToInt(-e)))


# --------------------------------------------------------------------------
# context / explorer
# --------------------------------------------------------------------------

def _canon(t):
    """canonical text of a polynomial term (sum-of-monomials normal form), so
    that equal radicands / quotients written in different orders share one
    purification symbol"""
    try:
        return z3.simplify(t, som=True, mul_to_power=True, sort_sums=True).sexpr()
    except z3.Z3Exception:
        return z3.simplify(t).sexpr()


def _iv_mul(a, b):
    ps = [a[0] * b[0], a[0] * b[1], a[1] * b[0], a[1] * b[1]]
    return (min(ps), max(ps))


def interval(t, bounds, depth=0):
    """sound interval (lo, hi) of a z3 arithmetic term from the declared input
    ranges only, or None.  Used to decide branches without a solver query."""
    if depth > 60:
        return None
    if z3.is_rational_value(t):
        v = Fraction(t.numerator_as_long(), t.denominator_as_long())
        return (v, v)
    if z3.is_int_value(t):
        v = Fraction(t.as_long())
        return (v, v)
    if not z3.is_app(t):
        return None
    k = t.decl().kind()
    if k == z3.Z3_OP_UNINTERPRETED and t.num_args() == 0:
        return bounds.get(t.decl().name())
    ch = t.children()
    if k == z3.Z3_OP_TO_REAL:
        return interval(ch[0], bounds, depth + 1)
    if k == z3.Z3_OP_UMINUS:
        a = interval(ch[0], bounds, depth + 1)
        return None if a is None else (-a[1], -a[0])
    if k == z3.Z3_OP_ADD:
        lo = hi = Fraction(0)
        for x in ch:
            a = interval(x, bounds, depth + 1)
            if a is None:
                return None
            lo += a[0]
            hi += a[1]
        return (lo, hi)
    if k == z3.Z3_OP_SUB:
        a = interval(ch[0], bounds, depth + 1)
        if a is None:
            return None
        lo, hi = a
        for x in ch[1:]:
            b = interval(x, bounds, depth + 1)
            if b is None:
                return None
            lo, hi = lo - b[1], hi - b[0]
        return (lo, hi)
    if k == z3.Z3_OP_MUL:
        # squares are non-negative
        if len(ch) == 2 and ch[0].eq(ch[1]):
            a = interval(ch[0], bounds, depth + 1)
            if a is None:
                return None
            if a[0] >= 0:
                return (a[0] * a[0], a[1] * a[1])
            if a[1] <= 0:
                return (a[1] * a[1], a[0] * a[0])
            return (Fraction(0), max(a[0] * a[0], a[1] * a[1]))
        r = (Fraction(1), Fraction(1))
        for x in ch:
            a = interval(x, bounds, depth + 1)
            if a is None:
                return None
            r = _iv_mul(r, a)
        return r
    if k == z3.Z3_OP_DIV:
        a = interval(ch[0], bounds, depth + 1)
        b = interval(ch[1], bounds, depth + 1)
        if a is None or b is None or b[0] <= 0 <= b[1]:
            return None
        return _iv_mul(a, (1 / b[1], 1 / b[0]))
    return None


def decide_by_interval(cond, bounds):
    """True / False if the comparison is decided by input ranges alone, else None"""
    if not z3.is_app(cond):
        return None
    k = cond.decl().kind()
    if k == z3.Z3_OP_NOT:
        r = decide_by_interval(cond.arg(0), bounds)
        return None if r is None else (not r)
    if k not in (z3.Z3_OP_LE, z3.Z3_OP_LT, z3.Z3_OP_GE, z3.Z3_OP_GT):
        return None
    a = interval(cond.arg(0), bounds)
    b = interval(cond.arg(1), bounds)
    if a is None or b is None:
        return None
    if k == z3.Z3_OP_LE:
        return True if a[1] <= b[0] else (False if a[0] > b[1] else None)
    if k == z3.Z3_OP_LT:
        return True if a[1] < b[0] else (False if a[0] >= b[1] else None)
    if k == z3.Z3_OP_GE:
        return True if a[0] >= b[1] else (False if a[1] < b[0] else None)
    return True if a[0] > b[1] else (False if a[1] <= b[0] else None)


class Stats:
    def __init__(self):
        self.queries = 0
        self.solver_s = 0.0
        self.unknown = 0
        self.paths = 0
        self.aborted = 0
        self.claims = 0
        self.discharged = 0
        self.violated = 0
        self.inconclusive = 0
        self.reach_sat = 0
        self.interval_decided = 0
        self.reasons = []

    def as_dict(self):
        return dict(self.__dict__)


class Ctx:
    def __init__(self, ex, prefix):
        self.ex = ex
        self.prefix = prefix
        self.pos = 0
        self.decisions = []
        self.alternatives = []
        self.solver = z3.Solver()
        self.solver.set('timeout', ex.query_timeout_ms)
        self.pc = []         # list of z3 formulas (for samples / debugging)
        self.inputs = {}     # name -> z3 const (declared symbolic inputs)
        self.input_meta = {}
        self.fresh = 0
        self.sqrt_memo = {}
        self.div_memo = {}
        self.e10_memo = {}
        self.l10_memo = {}
        self.axioms_used = set()
        self.markers = []    # format markers (value, spec)
        self.format_mode = 'marker'   # rendering/logging of symbolic reals yields tokens
        self.notes = {}
        self.relaxed = []
        self.extra_constraints = []
        self.floor_memo = {}
        self.reach_len = -1
        self.nonlinear = False
        self.bounds = {}
        self.want = []

    # -- solver helpers
    def _check(self, *extra):
        st = self.ex.stats
        t = time.time()
        if self.ex.backend == 'cvc5':
            r, model = cvc5_check(self, extra, self.ex.query_timeout_ms)
            st.solver_s += time.time() - t
            st.queries += 1
            if r == z3.unknown:
                st.unknown += 1
            return r, model
        if self.ex.oneshot is True or (self.ex.oneshot == 'auto' and self.nonlinear):
            # one-shot solver: z3 then selects its complete QF_NRA procedure
            # (nlsat); the incremental core is much weaker on non-linear reals
            s1 = z3.Solver()
            s1.set('timeout', self.ex.query_timeout_ms)
            s1.add(*self.pc)
            s1.add(*self.extra_constraints)
            if extra:
                s1.add(*extra)
            r = s1.check()
            model = s1.model() if r == z3.sat else None
        elif extra:
            self.solver.push()
            self.solver.add(*extra)
            r = self.solver.check()
            model = self.solver.model() if r == z3.sat else None
            self.solver.pop()
        else:
            r = self.solver.check()
            model = self.solver.model() if r == z3.sat else None
        st.solver_s += time.time() - t
        st.queries += 1
        if r == z3.unknown:
            st.unknown += 1
        return r, model

    def assume(self, f):
        """add a constraint (precondition, purification)"""
        if isinstance(f, SBool):
            f = f.e
        elif isinstance(f, bool):
            f = z3.BoolVal(f)
        self.solver.add(f)
        self.pc.append(f)

    # -- inputs
    def real(self, name, lo=None, hi=None, lo_strict=False, hi_strict=False):
        v = z3.Real(name)
        self.inputs[name] = v
        self.input_meta[name] = ('real', lo, hi)
        if lo is not None and hi is not None:
            self.bounds[name] = (Fraction(repr(lo)) if isinstance(lo, float) else Fraction(lo), Fraction(repr(hi)) if isinstance(hi, float) else Fraction(hi))
        if lo is not None:
            self.assume(v > rv(lo) if lo_strict else v >= rv(lo))
        if hi is not None:
            self.assume(v < rv(hi) if hi_strict else v <= rv(hi))
        return SReal(v)

    def int(self, name, lo=None, hi=None):
        v = z3.Int(name)
        self.inputs[name] = v
        nar = getattr(self.ex, 'narrow', None)
        if nar and name in nar and lo is not None and hi is not None:
            # range sharding: this worker decides the i-th of k consecutive parts of the declared range
            i, k = nar[name]
            n = hi - lo + 1
            lo, hi = lo + (i * n) // k, lo + ((i + 1) * n) // k - 1
        self.input_meta[name] = ('int', lo, hi)
        if lo is not None and hi is not None:
            self.bounds[name] = (Fraction(lo), Fraction(hi))
        if lo is not None:
            self.assume(v >= lo)
        if hi is not None:
            self.assume(v <= hi)
        return SInt(v)

    def count(self, name, lo=0, hi=None):
        """a non-negative count relaxed to a real (mixed Int/Real non-linear
        queries are far slower); a counterexample is only reported after it has
        been re-solved with the integrality constraint (see claim)."""
        v = z3.Real(name)
        self.inputs[name] = v
        self.input_meta[name] = ('count', lo, hi)
        self.relaxed.append(v)
        self.assume(v >= lo)
        if hi is not None:
            self.assume(v <= hi)
        return SReal(v)

    def bool(self, name):
        v = z3.Bool(name)
        self.inputs[name] = v
        self.input_meta[name] = ('bool',)
        return SBool(v)

    def choice(self, name, options):
        """symbolic selector over a finite list, resolved by a fork per
        value (each value is a solver-checked feasible alternative)."""
        k = self.int(name, 0, len(options) - 1)
        i = self.concretize_int(k.e, 'choice:' + name, cap=len(options) + 1)
        return options[i]

    def grid_real(self, name, lo, hi, scale=1000):
        """real on the 1/scale grid (PDB coordinates): k/scale, k Int."""
        k = z3.Int(name)
        self.inputs[name] = k
        self.input_meta[name] = ('grid', lo, hi, scale)
        self.assume(k >= int(_math.ceil(lo * scale)))
        self.assume(k <= int(_math.floor(hi * scale)))
        return SReal(z3.ToReal(k) / rv(scale))

    native = False

    def string(self, name, length, alphabet):
        from .sstr import SStr
        return SStr.symbolic(self, name, length, alphabet)

    def fresh_real(self, tag='t'):
        self.fresh += 1
        return z3.Real('%s!%d' % (tag, self.fresh))

    def fresh_int(self, tag='k'):
        self.fresh += 1
        return z3.Int('%s!%d' % (tag, self.fresh))

    # -- purification
    def purify_div(self, n, d):
        key = (_canon(n), _canon(d))
        q = self.div_memo.get(key)
        if q is None:
            q = self.fresh_real('div')
            self.div_memo[key] = q
            self.nonlinear = True
            self.assume(q * d == n)
        return q

    def purify_sqrt(self, a):
        key = _canon(a)
        r = self.sqrt_memo.get(key)
        if r is None:
            r = self.fresh_real('sqrt')
            self.sqrt_memo[key] = r
            self.nonlinear = True
            self.assume(r >= 0)
            self.assume(r * r == a)
        return r

    # -- transcendental: 10**x as uninterpreted function with axioms
    def e10(self, x):
        key = z3.simplify(x).sexpr()
        if key in self.e10_memo:
            return SReal(self.e10_memo[key][1])
        # Ackermannised: a fresh real per distinct argument plus pairwise
        # congruence/monotonicity instances keeps the queries in pure QF_NRA
        t = self.fresh_real('E10')
        self.assume(t > 0)
        self.axioms_used.add('E10(x) > 0')
        self.assume(z3.Implies(x == 0, t == 1))
        self.assume(z3.Implies(x > 0, t > 1))
        self.assume(z3.Implies(x < 0, t < 1))
        self.axioms_used.add('E10(0) = 1; x>0 => E10(x)>1; x<0 => E10(x)<1')
        for k2, (x2, t2) in self.e10_memo.items():
            self.assume(z3.Implies(x < x2, t < t2))
            self.assume(z3.Implies(x2 < x, t2 < t))
            self.assume(z3.Implies(x == x2, t == t2))
            self.axioms_used.add('E10 strictly monotone (pairwise instances)')
            if self.notes.get('e10_reciprocal'):
                self.assume(z3.Implies(x == -x2, t * t2 == 1))
                self.axioms_used.add('E10(x)*E10(-x) = 1 (pairwise instances)')
        self.e10_memo[key] = (x, t)
        return SReal(t)

    def l10(self, a):
        """log10 as uninterpreted function: monotone, L10(1)=0, L10(E10(x))=x"""
        key = z3.simplify(a).sexpr()
        if key in self.l10_memo:
            return SReal(self.l10_memo[key][1])
        t = self.fresh_real('L10')
        self.assume(z3.Implies(a == 1, t == 0))
        self.assume(z3.Implies(a > 1, t > 0))
        self.assume(z3.Implies(z3.And(a > 0, a < 1), t < 0))
        self.axioms_used.add('L10(1)=0; a>1 => L10(a)>0; 0<a<1 => L10(a)<0')
        for k2, (a2, t2) in self.l10_memo.items():
            self.assume(z3.Implies(a < a2, t < t2))
            self.assume(z3.Implies(a2 < a, t2 < t))
            self.assume(z3.Implies(a == a2, t == t2))
            self.axioms_used.add('L10 strictly monotone (pairwise instances)')
        for k2, (x2, e2) in self.e10_memo.items():
            self.assume(z3.Implies(a == e2, t == x2))
            self.axioms_used.add('L10(E10(x)) = x (pairwise instances)')
        self.l10_memo[key] = (a, t)
        return SReal(t)

    # -- forking
    def branch(self, cond):
        cond = z3.simplify(cond)
        if z3.is_true(cond):
            return True
        if z3.is_false(cond):
            return False
        if self.bounds:
            d = decide_by_interval(cond, self.bounds)
            if d is not None:
                self.ex.stats.interval_decided += 1
                return d
        if self.pos < len(self.prefix):
            ent = self.prefix[self.pos]
            self.pos += 1
            if ent[0] != 'b':
                raise RuntimeError("non-deterministic replay (expected branch, got %r)" % (ent,))
            d = ent[1]
            self.decisions.append(ent)
            self.assume(cond if d else z3.Not(cond))
            return d
        rt, _ = self._check(cond)
        rf, _ = self._check(z3.Not(cond))
        can_t = rt != z3.unsat
        can_f = rf != z3.unsat
        if rt == z3.unknown or rf == z3.unknown:
            self.ex.stats.reasons.append('unknown at branch')
        if can_t and can_f:
            self.alternatives.append(self.decisions + [('b', False)])
            d = True
        elif can_t:
            d = True
        elif can_f:
            d = False
        else:
            raise Abort()
        self.pos += 1
        self.decisions.append(('b', d))
        self.assume(cond if d else z3.Not(cond))
        return d

    def concretize_int(self, e, why='', cap=None):
        """fork over the feasible values of an Int term; returns python int"""
        v = val_of(e)
        if v is not None:
            return int(v)
        cap = cap or self.ex.concretize_cap
        if self.pos < len(self.prefix):
            ent = self.prefix[self.pos]
            self.pos += 1
            if ent[0] != 'c':
                raise RuntimeError("non-deterministic replay (expected concretise, got %r)" % (ent,))
            excluded, val = ent[1], ent[2]
        else:
            excluded, val = (), None
            self.pos += 1
        if val is None:
            for x in excluded:
                self.solver.add(e != x)
                self.extra_constraints.append(e != x)
            self.want = [e]
            try:
                r, m = self._check()
            finally:
                self.want = []
            if r == z3.unsat:
                raise Abort()
            if r == z3.unknown:
                self.ex.stats.reasons.append('unknown at concretise(%s)' % why)
                raise Budget('unknown at concretise')
            mv = m.eval(e, model_completion=True)
            val = mv.as_signed_long() if z3.is_bv_value(mv) else mv.as_long()
            if len(excluded) + 1 >= cap:
                self.ex.stats.reasons.append('concretisation cap hit (%s)' % why)
                self.ex.cap_hit = True
            else:
                r2, _ = self._check(e != val)
                if r2 != z3.unsat:
                    self.alternatives.append(self.decisions + [('c', excluded + (val,), None)])
        self.decisions.append(('c', excluded, val))
        self.assume(e == val)
        return int(val)

    def concretize_real(self, e, cap=3):
        """pin a Real term to one of its feasible values (fork per value, at
        most `cap` values; beyond that the obligation is inconclusive)"""
        v = val_of(e)
        if v is not None:
            return Fraction(v)
        key = 'R' + z3.simplify(e).sexpr()
        if key in self.floor_memo:
            return self.floor_memo[key]
        if self.pos < len(self.prefix):
            ent = self.prefix[self.pos]
            self.pos += 1
            if ent[0] != 'r':
                raise RuntimeError("non-deterministic replay (expected real, got %r)" % (ent,))
            excluded, val = ent[1], ent[2]
        else:
            excluded, val = (), None
            self.pos += 1
        for x in excluded:
            self.assume(e != rv(x))
        if val is None:
            # prefer a value that coincides with an earlier pinned value (hash/dict collisions are the interesting case)
            r, m = z3.unknown, None
            for prev in [p for k_, p in self.floor_memo.items() if k_.startswith('R')]:
                r, m = self._check(e == rv(prev))
                if r == z3.sat:
                    break
            if r != z3.sat:
                r, m = self._check()
            if r == z3.unsat:
                raise Abort()
            if r == z3.unknown:
                raise Budget('unknown at real concretisation')
            val = z3_to_py(m.eval(e, model_completion=True))
            val = Fraction(val)
            if len(excluded) + 1 >= cap:
                self.ex.stats.reasons.append('concretisation cap hit (symbolic real used as a key)')
                self.ex.cap_hit = True
            else:
                r2, _ = self._check(e != rv(val))
                if r2 != z3.unsat:
                    self.alternatives.append(self.decisions + [('r', excluded + (val,), None)])
        self.decisions.append(('r', excluded, val))
        self.assume(e == rv(val))
        self.floor_memo[key] = val
        return val

    def concretize_floor(self, e):
        """fork over the feasible values of floor(e) for a Real term e.  The
        path condition records v <= e < v+1 (pure real constraints: keeps
        later queries inside QF_NRA) instead of ToInt(e) == v."""
        v = val_of(e)
        if v is not None:
            return _math.floor(v)
        key = z3.simplify(e).sexpr()
        if key in self.floor_memo:
            return self.floor_memo[key]
        if self.pos < len(self.prefix):
            ent = self.prefix[self.pos]
            self.pos += 1
            if ent[0] != 'f':
                raise RuntimeError("non-deterministic replay (expected floor, got %r)" % (ent,))
            excluded, val = ent[1], ent[2]
        else:
            excluded, val = (), None
            self.pos += 1
        for x in excluded:
            self.assume(z3.Or(e < x, e >= x + 1))
        if val is None:
            r, m = self._check()
            if r == z3.unsat:
                raise Abort()
            if r == z3.unknown:
                self.ex.stats.reasons.append('unknown at floor concretisation')
                raise Budget('unknown at floor')
            ev = z3_to_py(m.eval(e, model_completion=True))
            val = _math.floor(ev)
            if len(excluded) + 1 >= self.ex.concretize_cap:
                self.ex.stats.reasons.append('concretisation cap hit (floor)')
                self.ex.cap_hit = True
            else:
                # queue the alternative only if another value is feasible
                # (saves a full re-execution that would end in Abort)
                r2, _ = self._check(z3.Or(e < val, e >= val + 1))
                if r2 != z3.unsat:
                    self.alternatives.append(self.decisions + [('f', excluded + (val,), None)])
        self.decisions.append(('f', excluded, val))
        self.assume(z3.And(e >= val, e < val + 1))
        self.floor_memo[key] = val
        return val

    # -- claims
    def reachable(self):
        r, _ = self._check()
        return r

    def claim(self, name, formula, detail=None):
        """assert `formula` on this path.  Discharged iff pc /\\ not formula is
        unsat.  Also checks the path's reachability twin (pc sat)."""
        st = self.ex.stats
        st.claims += 1
        gap = None
        if isinstance(formula, SBool):
            gap = formula.gap
            formula = formula.e
        if isinstance(formula, bool):
            formula = z3.BoolVal(formula)
        if self.reach_len == len(self.pc):
            r0 = z3.sat      # path condition unchanged since its last sat check
        else:
            r0, _ = self._check()
        if r0 == z3.unsat:
            st.claims -= 1
            raise Abort()
        if r0 == z3.sat:
            if self.reach_len != len(self.pc):
                st.reach_sat += 1
            self.reach_len = len(self.pc)
        fs = z3.simplify(formula)
        if z3.is_true(fs) and r0 == z3.sat:
            # trivially true on a reachable path: no query needed
            st.discharged += 1
            self.ex.record_claim(name, 'discharged', self, None, detail)
            return True
        r, m = self._check(z3.Not(formula))
        if r == z3.unsat:
            st.discharged += 1
            self.ex.record_claim(name, 'discharged', self, None, detail)
            return True
        if r == z3.unknown:
            st.inconclusive += 1
            st.reasons.append('unknown at claim %s' % name)
            self.ex.record_claim(name, 'inconclusive', self, None, detail)
            return None
        if self.relaxed:
            r2, m2 = self._check(z3.Not(formula), *[z3.IsInt(v) for v in self.relaxed])
            if r2 != z3.sat:
                st.inconclusive += 1
                st.reasons.append('claim %s: counterexample exists only in the count-as-real relaxation (%s with integrality)' % (name, r2))
                self.ex.record_claim(name, 'inconclusive', self, None, detail)
                return None
            m = m2
        st.violated += 1
        if gap is not None:
            # an equality is violated: prefer a counterexample in which the two sides differ visibly (a difference below
            # the tolerance of the native replay would be reported as "does not reproduce")
            self._robust = False
            for tol in (1e-3, 1e-6):
                r4, m4 = self._check(z3.Not(formula), z3.Or(gap > tol, gap < -tol))
                if r4 == z3.sat:
                    m = m4
                    self._robust = True
                    break
        # a few more models that differ from the first in every real-valued
        # input: a counterexample sitting exactly on a rounding tie (where the
        # exact-real model and CPython differ) need not reproduce natively
        alts = []
        blocked = []
        cur_m = m
        for _ in range(3):
            for nm, v in self.inputs.items():
                if v.sort() == z3.RealSort():
                    blocked.append(v != cur_m.eval(v, model_completion=True))
            if not blocked:
                break
            r3, m3 = self._check(z3.Not(formula), *blocked)
            if r3 != z3.sat:
                break
            alts.append(self.model_inputs(m3))
            cur_m = m3
        self.ex.record_claim(name, 'violated', self, m, detail, formula, alts)
        return False

    def model_inputs(self, m):
        out = {}
        for name, v in self.inputs.items():
            val = m.eval(v, model_completion=True)
            out[name] = z3_to_py(val)
        return out

    # -- format hook
    def format_hook(self, value, spec):
        if self.format_mode == 'marker':
            self.markers.append((value, spec))
            tok = '⟦%d⟧' % (len(self.markers) - 1)
            # keep the minimum field width of the spec so that fixed-column
            # layouts stay aligned
            import re
            m = re.match(r'^(?:(.)?([<>=^]))?[-+ ]?#?0?(\d+)?', spec or '')
            if m and m.group(3):
                w = int(m.group(3))
                al = m.group(2) or '>'
                tok = tok.ljust(w) if al == '<' else tok.center(w) if al == '^' else tok.rjust(w)
            return tok
        raise Unsupported("format of symbolic number with spec %r" % (spec,))


class TextModel:
    """model read back from an external solver: values of the declared inputs
    and of explicitly requested terms"""

    def __init__(self, values):
        self.values = values      # z3 term id -> z3 value

    def eval(self, term, model_completion=True):
        v = self.values.get(term.get_id())
        if v is None:
            raise KeyError('value of %s was not requested from the external solver' % term)
        return v


def _parse_value(txt, sort):
    txt = txt.strip()
    if sort.kind() == z3.Z3_BV_SORT:
        if txt.startswith('#b'):
            return z3.BitVecVal(int(txt[2:], 2), sort.size())
        if txt.startswith('#x'):
            return z3.BitVecVal(int(txt[2:], 16), sort.size())
        m = re.match(r'\(_ bv(\d+) \d+\)', txt)
        return z3.BitVecVal(int(m.group(1)), sort.size())
    if sort.kind() == z3.Z3_BOOL_SORT:
        return z3.BoolVal(txt == 'true')
    neg = False
    m = re.match(r'^\(- (.*)\)$', txt)
    if m:
        neg, txt = True, m.group(1).strip()
    m = re.match(r'^\(/ (\S+) (\S+)\)$', txt)
    if m:
        f = Fraction(m.group(1).rstrip('.0') or '0') if False else Fraction(Fraction(m.group(1)), Fraction(m.group(2)))
    else:
        f = Fraction(txt)
    if neg:
        f = -f
    if sort.kind() == z3.Z3_INT_SORT:
        return z3.IntVal(int(f))
    return z3.RealVal(str(f))


def cvc5_check(ctx, extra, timeout_ms):
    """decide pc and extra with the cvc5 binary (QF_FP queries that z3 does not
    finish).  Values of the declared inputs and of ctx.want terms are read back."""
    import subprocess
    import tempfile
    s1 = z3.Solver()
    s1.add(*ctx.pc)
    s1.add(*ctx.extra_constraints)
    if extra:
        s1.add(*extra)
    wanted = list(ctx.inputs.values()) + list(ctx.want)
    names = []
    for i, w in enumerate(wanted):
        k = z3.Const('want!%d' % i, w.sort())
        s1.add(k == w)
        names.append((k, w))
    txt = s1.to_smt2()
    txt = '(set-logic ALL)\n(set-option :produce-models true)\n' + txt
    txt += '\n(get-value (%s))\n' % ' '.join('want!%d' % i for i in range(len(names))) if names else ''
    fd, path = tempfile.mkstemp(suffix='.smt2', prefix='symx')
    try:
        with os.fdopen(fd, 'w') as fh:
            fh.write(txt)
        try:
            out = subprocess.run(['cvc5', '--tlimit=%d' % timeout_ms, path], capture_output=True, text=True,
                                 timeout=timeout_ms / 1000.0 + 20).stdout
        except subprocess.TimeoutExpired:
            return z3.unknown, None
    finally:
        try:
            os.remove(path)
        except OSError:
            pass
    first = out.strip().split('\n')[0].strip() if out.strip() else ''
    if '(error' in out and first not in ('sat', 'unsat'):
        ctx.ex.stats.reasons.append('cvc5: %s' % out.strip()[:160])
        return z3.unknown, None
    if first == 'unsat':
        return z3.unsat, None
    if first != 'sat':
        return z3.unknown, None
    vals = {}
    for m in re.finditer(r'\(want!(\d+) ((?:\([^()]*(?:\([^()]*\)[^()]*)*\))|[^()\s]+)\)', out):
        i = int(m.group(1))
        k, w = names[i]
        try:
            vals[w.get_id()] = _parse_value(m.group(2), w.sort())
        except Exception:
            pass
    return z3.sat, TextModel(vals)


def z3_to_py(val):
    if z3.is_int_value(val):
        return val.as_long()
    if z3.is_bv_value(val):
        return val.as_signed_long()
    if z3.is_rational_value(val):
        return Fraction(val.numerator_as_long(), val.denominator_as_long())
    if z3.is_algebraic_value(val):
        a = val.approx(20)
        return Fraction(a.numerator_as_long(), a.denominator_as_long())
    if z3.is_true(val):
        return True
    if z3.is_false(val):
        return False
    if z3.is_string_value(val):
        return val.as_string()
    return str(val)


class Explorer:
    def __init__(self, max_paths=20000, query_timeout_ms=10000,
                 concretize_cap=64, wall_s=None, stop_on_violation=True,
                 max_samples=3, oneshot='auto', backend='z3'):
        self.oneshot = oneshot
        self.backend = backend
        self.max_paths = max_paths
        self.query_timeout_ms = query_timeout_ms
        self.concretize_cap = concretize_cap
        self.wall_s = wall_s
        self.stats = Stats()
        self.cap_hit = False
        self.exhausted = False
        self.violations = []
        self.samples = []
        self.max_samples = max_samples
        self.stop_on_violation = stop_on_violation
        self.claim_names = {}
        self.axioms = set()
        self.path_outcomes = {}
        self.known_filter = None   # callable(name, inputs) -> finding id or None

    def record_claim(self, name, status, ctx, model, detail, formula=None, alts=None):
        d = self.claim_names.setdefault(name, {'discharged': 0, 'violated': 0, 'inconclusive': 0})
        d[status] += 1
        if status == 'violated':
            inputs = ctx.model_inputs(model)
            self.violations.append({'claim': name, 'inputs': inputs, 'detail': detail,
                                    'decisions': len(ctx.decisions), 'alt_inputs': alts or [],
                                    'robust': getattr(ctx, '_robust', None)})
            ctx._robust = None
        if len(self.samples) < self.max_samples:
            self.samples.append({
                'claim': name, 'status': status,
                'path_condition': [str(z3.simplify(c))[:200] for c in ctx.pc[:12]],
                'n_constraints': len(ctx.pc)})

    def run(self, fn, initial_stack=None, bfs_until=None):
        """explore all feasible paths of fn(ctx).  initial_stack: decision
        prefixes to start from (a shard of a frontier).  bfs_until: explore
        breadth-first until the frontier holds that many prefixes, then stop
        and leave them in self.frontier (splitter mode)."""
        global CUR
        stack = [list(p) for p in initial_stack] if initial_stack is not None else [[]]
        self.frontier = None
        t0 = time.time()
        while stack:
            if bfs_until is not None and len(stack) >= bfs_until:
                self.frontier = stack
                self.exhausted = False
                return self
            if self.stats.paths >= self.max_paths:
                self.stats.reasons.append('path budget (%d) exhausted' % self.max_paths)
                break
            if self.wall_s is not None and time.time() - t0 > self.wall_s:
                self.stats.reasons.append('wall budget (%.0fs) exhausted' % self.wall_s)
                break
            prefix = stack.pop(0) if bfs_until is not None else stack.pop()
            ctx = Ctx(self, prefix)
            CUR = ctx
            outcome = 'ok'
            try:
                fn(ctx)
            except Abort:
                outcome = 'abort'
                self.stats.aborted += 1
            except Budget as e:
                outcome = 'budget'
                self.stats.inconclusive += 1
            except Unsupported as e:
                outcome = 'unsupported'
                self.stats.inconclusive += 1
                self.stats.reasons.append('Unsupported: %s' % (e,))
            except Exception as e:
                # implicit claim: the harness body raises nothing it does not
                # handle itself.  The model of the path condition is the
                # counterexample; native replay decides.
                import traceback
                outcome = 'exception:' + type(e).__name__
                tb = traceback.format_exc()[-1200:]
                try:
                    CUR = ctx
                    ctx.claim('no-exception', z3.BoolVal(False), detail='%s: %s\n%s' % (type(e).__name__, e, tb))
                except Abort:
                    outcome = 'abort'
            finally:
                CUR = None
            self.axioms |= ctx.axioms_used
            self.path_outcomes[outcome] = self.path_outcomes.get(outcome, 0) + 1
            self.stats.paths += 1
            for alt in ctx.alternatives:
                stack.append(alt)
            if self.violations and self.stop_on_violation:
                break
        else:
            self.exhausted = True
        if stack:
            self.exhausted = False
        return self


# convenience used by harnesses (polymorphic: python bools/floats in native
# replay mode, z3-backed values in symbolic mode) -----------------------------

TOL = 1e-9


def _allbool(a):
    return all(isinstance(x, bool) for x in a)


def And(*a):
    if _allbool(a):
        return all(a)
    return SBool(z3.And(*[lift_bool(x) for x in a]))


def Or(*a):
    if _allbool(a):
        return any(a)
    return SBool(z3.Or(*[lift_bool(x) for x in a]))


def Not(a):
    if isinstance(a, bool):
        return not a
    return SBool(z3.Not(lift_bool(a)))


def Implies(a, b):
    if isinstance(a, bool) and isinstance(b, bool):
        return (not a) or b
    return SBool(z3.Implies(lift_bool(a), lift_bool(b)))


def _tol(a, b):
    return TOL * (1.0 + abs(a) + abs(b))


def eq(a, b):
    """equality of two numbers (exact symbolically; with tolerance natively)"""
    if not is_sym(a) and not is_sym(b):
        if isinstance(a, (int, Fraction)) and isinstance(b, (int, Fraction)) and not isinstance(a, bool):
            return a == b
        return abs(a - b) <= _tol(a, b)
    la, lb = lift_real(a), lift_real(b)
    return SBool(la == lb, gap=la - lb)


def le(a, b):
    if not is_sym(a) and not is_sym(b):
        return a <= b + _tol(a, b)
    return SBool(lift_real(a) <= lift_real(b))


def ge(a, b):
    return le(b, a)


def lt(a, b):
    """strict comparison (no tolerance)"""
    if not is_sym(a) and not is_sym(b):
        return a < b
    return SBool(lift_real(a) < lift_real(b))


def ite(c, a, b):
    if isinstance(c, bool):
        return a if c else b
    return SReal(z3.If(lift_bool(c), lift_real(a), lift_real(b)))


class NativeViolation(Exception):
    pass


class NativeCtx:
    """same surface as Ctx, for replaying a model against the plain code with
    ordinary python values"""
    native = True

    def __init__(self, inputs):
        self.inputs = inputs
        self.results = []      # (claim name, ok, detail)
        self.precondition_failed = None
        self.notes = {}
        self.markers = []
        self.format_mode = None

    def _get(self, name):
        if name not in self.inputs:
            # the native run took a path the model did not: no reproduction
            self.mismatch = name
            raise Abort()
        return self.inputs[name]

    def real(self, name, lo=None, hi=None, lo_strict=False, hi_strict=False):
        return float(self._get(name))

    def grid_real(self, name, lo, hi, scale=1000):
        return float(Fraction(int(self._get(name)), scale))

    def int(self, name, lo=None, hi=None):
        return int(self._get(name))

    def bool(self, name):
        return bool(self._get(name))

    def count(self, name, lo=0, hi=None):
        return int(self._get(name))

    def choice(self, name, options):
        return options[int(self._get(name))]

    def string(self, name, length, alphabet):
        return ''.join(chr(int(self._get('%s_%d' % (name, i)))) for i in range(length))

    def assume(self, f):
        if isinstance(f, SBool) or not isinstance(f, bool):
            raise RuntimeError("symbolic assumption in native mode")
        if not f and self.precondition_failed is None:
            self.precondition_failed = True
            raise Abort()

    def claim(self, name, formula, detail=None):
        ok = bool(formula)
        self.results.append((name, ok, detail))
        return ok

    def reachable(self):
        return True


def run_native(fn, inputs, claim=None):
    """returns (violated, text)"""
    ctx = NativeCtx(inputs)
    try:
        fn(ctx)
    except Abort:
        bad = [(n, d) for n, ok, d in ctx.results if not ok]
        if bad:
            return True, 'claims violated before the native run left the modelled path: %r' % (bad[:5],)
        return False, 'precondition not met natively / native run left the modelled path (missing input %r; inputs %r)' % (getattr(ctx, 'mismatch', None), inputs)
    except Exception as e:  # the implicit no-exception claim
        import traceback
        return True, 'uncaught %s: %s\n%s' % (type(e).__name__, e, traceback.format_exc()[-1500:])
    bad = [(n, d) for n, ok, d in ctx.results if not ok]
    txt = '\n'.join('claim %s: %s %s' % (n, 'ok' if ok else 'VIOLATED', d if d is not None else '') for n, ok, d in ctx.results[:40])
    if claim is not None and claim != 'no-exception':
        base = claim
        hit = [b for b in bad if b[0] == base]
        return bool(hit) or bool(bad), txt
    return bool(bad), txt
