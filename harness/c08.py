"""C08 -- the conformation average is the mean over the conformations that
contain a group (naming, topping-up, averaging)."""
import itertools

from symx import And, Or, Not, Implies, eq, le, ge, lt, ite
from symx.runner import Obligation
from . import common as H
from . import pdbstream as PS
from .c02 import mk_group, total, KINDS, fill

PROPERTY = 'C08'
META = {'assumptions': []}

NAMING_SEQS = [('CA', 'CA'), ('MODEL', 'CA', 'CA'), ('CA', 'MODEL', 'CA'), ('MODEL', 'CA', 'MODEL', 'CA'), ('CA', 'TER', 'CA')]


def mk_naming(seq):
    def body(ctx):
        recs = PS.make_records(ctx, list(seq), altloc=True, models=(1, 2, 3))
        got = PS.run_code(recs)
        exp = PS.run_spec(recs)
        PS.compare(ctx, 'naming', got, exp)
        # name is a function of (model, tag) only: two records with the same
        # model and identified tags get the same name (and vice versa)
        atoms = [r for r in recs if r.is_atom]
        if len(got) == 2 and len(atoms) == 2:
            a, b = atoms
            m = {}
            model = 1
            for r in recs:
                if r.tag == 'MODEL ':
                    model = r.model
                if r.is_atom:
                    m[r.idx] = model

            def ident(t):
                # blank == A == 1, B == 2
                return ite(Or(t == ' ', t == 'A', t == '1'), 0, 1)
            same = And(m[a.idx] == m[b.idx], eq(ident(a.altloc), ident(b.altloc)))
            ctx.claim('name-injective-up-to-identifications', (got[0][0] == got[1][0]) == same)
    return body


def o_sorter(ctx):
    """conformation_sorter orders by model, then tag"""
    import propka.input as I
    m1 = ctx.choice('m1', [1, 2, 10])
    m2 = ctx.choice('m2', [1, 2, 10])
    t1 = ctx.string('t1', 1, 'ABC')
    t2 = ctx.string('t2', 1, 'ABC')
    k1 = I.conformation_sorter(str(m1) + t1)
    k2 = I.conformation_sorter(str(m2) + t2)
    before = Or(m1 < m2, And(m1 == m2, t1 < t2))
    ctx.claim('model-then-tag', (k1 < k2) == before)
    ctx.claim('equal-keys-only-for-equal-names', (k1 == k2) == And(m1 == m2, t1 == t2))


# -- topping up -----------------------------------------------------------------------

UNIVERSE = [('N', 10, 'A'), ('CA', 10, 'A'), ('CB', 10, 'A'), ('N', 11, 'A'), ('N', 10, 'B')]


def mk_topup(nconf, universe=None):
    UNIV = universe or UNIVERSE

    def body(ctx):
        p = H.params()
        mol = H.molecule(p)
        names = ['1A', '1B', '1C'][:nconf]
        originals = {}
        # residue 10 of chain A may be ALA in one conformation and SER in another (alt-loc point mutant);
        # residue 10 of chain B is a LYS everywhere; residue 11 carries an insertion code
        resname10 = {nm: ctx.choice('res10_' + nm, ['ALA', 'SER']) for nm in names}
        for nm in names:
            conf = H.conformation(nm, p=p, mol=mol)
            originals[nm] = []
            for (an, rn, ch) in UNIV:
                if ctx.choice('present_%s_%s%d%s' % (nm, an, rn, ch), [False, True]):
                    res = 'LYS' if ch == 'B' else (resname10[nm] if rn == 10 else 'GLY')
                    a = H.atom(an, res, rn, ch, 1.0 + len(nm), 2.0, 3.0, icode='A' if rn == 11 else ' ')
                    conf.add_atom(a)
                    originals[nm].append(a)
        ctx.assume(any(originals[nm] for nm in names))
        mol.top_up_conformations()
        every = [a for nm in names for a in originals[nm]]
        for nm in names:
            conf = mol.conformations[nm]
            ctx.claim('originals-kept', all(any(a is b for b in conf.atoms) for a in originals[nm]))
            ctx.claim('no-duplicates', len({(a.name, a.res_num, a.chain_id) for a in conf.atoms}) == len(conf.atoms))
            for rn, ch in {(r, c) for _, r, c in UNIV}:
                types = {a.res_name for a in conf.atoms if a.res_num == rn and a.chain_id == ch}
                ctx.claim('one-residue-type-per-position', len(types) <= 1, detail='%s residue %d%s: %r' % (nm, rn, ch, types))
            for a in conf.atoms:
                # a topped-up atom is a faithful copy of an atom some conformation had
                ok = any((a.name, a.res_name, a.res_num, a.chain_id, a.icode, a.element, a.type, a.x, a.y, a.z) ==
                         (o.name, o.res_name, o.res_num, o.chain_id, o.icode, o.element, o.type, o.x, o.y, o.z) for o in every)
                ctx.claim('copies-carry-every-identity-field', ok,
                          detail='%s: %r' % (nm, (a.name, a.res_name, a.res_num, a.chain_id, a.icode, a.element, a.type)))
                ctx.claim('copied-atoms-belong-to-their-container', a.conformation_container is conf)
        for rn, ch in {(r, c) for _, r, c in UNIV}:
            all_types = {a.res_name for a in every if a.res_num == rn and a.chain_id == ch}
            if len(all_types) == 1:
                union = {a.name for a in every if a.res_num == rn and a.chain_id == ch}
                for nm in names:
                    have = {a.name for a in mol.conformations[nm].atoms if a.res_num == rn and a.chain_id == ch}
                    ctx.claim('completed-to-the-union', have == union, detail='%s residue %d%s: %r vs %r' % (nm, rn, ch, have, union))
    return body


def o_average_mutant_twin(ctx):
    """a position that is HIS in one conformation and ASP in another (both groups are centred on an atom
    called CG): both groups exist somewhere, both are reported, each averaged over its own conformations"""
    p = H.params()
    mol = H.molecule(p)
    order = ctx.choice('which_type_first', ['HIS-first', 'ASP-first'])
    specs = [('HISGroup', 'HIS', 1), ('COOGroup', 'ASP', -1)]
    if order == 'ASP-first':
        specs.reverse()
    made = []
    for nm, (cls, res, q) in zip(['1A', '1B'], specs):
        conf = H.conformation(nm, p=p, mol=mol)
        g = mk_group(cls, res, 23, 'CG', q=q, p=p)
        g.model_pka = p.model_pkas[res]
        g.energy_volume = ctx.real('ev_' + res, -3, 3)
        g.calculate_total_pka()
        o = mk_group('LYSGroup', 'LYS', 40, 'NZ', q=1, p=p)
        o.model_pka = 10.5
        o.calculate_total_pka()
        conf.groups.extend([g, o])
        made.append(g)
    mol.average_of_conformations()
    avr = mol.conformations['AVR']
    for g in made:
        got = [a for a in avr.groups if a.label == g.label and a.type == g.type]
        ctx.claim('both-mutant-groups-reported', len(got) == 1, detail='%s reported %d times' % (g.label, len(got)))
        if len(got) == 1:
            ctx.claim('averaged-over-its-own-conformation', eq(got[0].pka_value, g.pka_value))
    ctx.claim('common-group-once', len([a for a in avr.groups if a.label == 'LYS  40 A']) == 1)


# -- averaging with presence bits ---------------------------------------------------------

def mk_average_presence(K):
    def body(ctx):
        p = H.params()
        mol = H.molecule(p)
        names = ['1A', '1B', '1C'][:K]
        present = [ctx.choice('present_%s' % nm, [True, False]) for nm in names]
        ctx.assume(any(present))
        per_conf = []
        other = []
        for ci, nm in enumerate(names):
            conf = H.conformation(nm, p=p, mol=mol)
            # a second group that exists everywhere (keeps the first conformation non-empty)
            o = mk_group('LYSGroup', 'LYS', 20, 'NZ', q=1, p=p)
            o.model_pka = 10.5
            o.energy_volume = ctx.real('o%d_ev' % ci, -3, 3)
            o.calculate_total_pka()
            conf.groups.append(o)
            other.append(o)
            if present[ci]:
                g = mk_group('COOGroup', 'ASP', 10, 'CG', p=p)
                fill(ctx, g, 'c%d' % ci, [o], (1, 0, 1))
                g.model_pka = 3.8
                g.buried = ctx.real('c%d_buried' % ci, 0, 1)
                g.calculate_total_pka()
                conf.groups.append(g)
                per_conf.append(g)
        mol.average_of_conformations()
        avr = mol.conformations['AVR']
        got = [g for g in avr.groups if g.label == 'ASP  10 A']
        ctx.claim('group-existing-somewhere-is-reported', len(got) == 1,
                  detail='present in %r, reported %d times' % (present, len(got)))
        n = len(per_conf)
        if len(got) == 1:
            a = got[0]
            ctx.claim('pka-is-mean-over-containing-conformations', eq(a.pka_value * n, sum((g.pka_value for g in per_conf), 0.0)),
                      detail='present in %r' % (present,))
            ctx.claim('desolvation-is-mean', eq(a.energy_volume * n, sum((g.energy_volume for g in per_conf), 0.0)))
            ctx.claim('buried-is-mean', eq(a.buried * n, sum((g.buried for g in per_conf), 0.0)))
            ctx.claim('average-self-consistent', eq(a.pka_value, total(a)))
        lys = [g for g in avr.groups if g.label == 'LYS  20 A']
        ctx.claim('ubiquitous-group-reported-once', len(lys) == 1)
        if lys:
            ctx.claim('ubiquitous-group-mean', eq(lys[0].pka_value * K, sum((o.pka_value for o in other), 0.0)))
    return body


def o_single_and_identical(ctx):
    """K=1 reproduces the conformation; K identical copies reproduce it"""
    p = H.params()
    K = ctx.choice('K', [1, 2, 3])
    mol = H.molecule(p)
    vals = None
    for ci, nm in enumerate(['1A', '2A', '3A'][:K]):
        conf = H.conformation(nm, p=p, mol=mol)
        o = mk_group('LYSGroup', 'LYS', 20, 'NZ', q=1, p=p)
        g = mk_group('COOGroup', 'ASP', 10, 'CG', p=p)
        if vals is None:
            fill(ctx, g, 'g', [o], (2, 1, 1))
            vals = g
        else:
            from propka.determinant import Determinant
            g.model_pka, g.energy_volume, g.energy_local = vals.model_pka, vals.energy_volume, vals.energy_local
            for k in KINDS:
                for d in vals.determinants[k]:
                    g.determinants[k].append(Determinant(o, d.value))
        g.calculate_total_pka()
        conf.groups.extend([g])
    mol.average_of_conformations()
    a = mol.conformations['AVR'].groups[0]
    ctx.claim('same-pka', eq(a.pka_value, vals.pka_value))
    ctx.claim('same-desolvation', And(eq(a.energy_volume, vals.energy_volume), eq(a.energy_local, vals.energy_local)))
    for k in KINDS:
        ctx.claim('same-determinant-count', len(a.determinants[k]) == len({d.label for d in vals.determinants[k]}))
        for lab in {d.label for d in vals.determinants[k]}:
            ctx.claim('same-determinants', eq(sum((d.value for d in a.determinants[k] if d.label == lab), 0.0),
                                             sum((d.value for d in vals.determinants[k] if d.label == lab), 0.0)))


def _gkey(g):
    a = g.atom
    return (g.type, a.name, a.res_num, a.chain_id, a.icode)


def mk_pipeline_single(name, params=None, copies=1):
    """whole pipeline on a single-conformation file (copies=1) or on K identical MODELs: the reported average is exactly
    the (common) conformation -- every group once, same pKa, desolvation and determinants partner by partner (partners
    told apart by identity, not by label: two copies of a ligand or two ions of one kind in a chain share their labels)"""
    def body(ctx):
        from . import micro as M
        txt = M.text(name)
        if copies > 1:
            txt = M.models(*([txt] * copies))
        k = ctx.int('shift_thousandths', 0, 2509)
        t = k / 1000.0 if ctx.native else k / 1000

        def tr(a):
            a.x = a.x + t
        mol = M.run(txt, transform=tr, params=params)
        first = mol.conformations[mol.conformation_names[0]]
        avr = mol.conformations['AVR']
        want = [g for g in first.groups if g.use_in_calculations()]
        got = {}
        for g in avr.groups:
            got.setdefault(_gkey(g), []).append(g)
        ctx.claim('every-group-once', sorted(_gkey(g) for g in want) == sorted(k_ for k_, v in got.items() for _ in v),
                  detail='missing %r, extra %r' % (sorted(set(map(_gkey, want)) - set(got)), sorted(set(got) - set(map(_gkey, want)))))
        for g in want:
            for a in got.get(_gkey(g), [])[:1]:
                ctx.claim('pka-is-the-conformation-value', eq(a.pka_value, g.pka_value), detail='%s %r vs %r' % (g.label, a.pka_value, g.pka_value))
                ctx.claim('desolvation-is-the-conformation-value', And(eq(a.energy_volume, g.energy_volume), eq(a.buried, g.buried)))
                for kind in KINDS:
                    dk = lambda d: (d.label, d.group.atom.name, d.group.atom.res_num, d.group.atom.chain_id)
                    da = sorted(((dk(d), d.value) for d in a.determinants[kind]), key=lambda x: x[0])
                    dg = sorted(((dk(d), d.value) for d in g.determinants[kind]), key=lambda x: x[0])
                    ctx.claim('determinants-partner-by-partner:' + kind, [x[0] for x in da] == [x[0] for x in dg] and all(bool(eq(x[1], y[1])) for x, y in zip(da, dg)),
                              detail='%s: average %r, conformation %r' % (g.label, da, dg))
    return body


def mk_pipeline_mutant_model(name, resnum, params=None):
    """two MODELs of a structure with a hetero group, the second with one residue mutated to alanine (a point mutant is not
    merged by topping up, so the conformations hold different numbers of atoms in front of the hetero group): for every group
    present in both conformations the average lists each partner once, with the mean of the two conformations' values"""
    def body(ctx):
        from . import micro as M
        from .c16 import mutate_to_ala
        txt = M.text(name)
        order = ctx.choice('mutant_is', ['MODEL 2', 'MODEL 1'])
        txt = M.models(txt, mutate_to_ala(txt, resnum)) if order == 'MODEL 2' else M.models(mutate_to_ala(txt, resnum), txt)
        k = ctx.int('shift_thousandths', 0, 2509)
        t = k / 1000.0 if ctx.native else k / 1000

        def tr(a):
            a.x = a.x + t
        mol = M.run(txt, transform=tr, params=params)
        confs = [mol.conformations[n] for n in mol.conformation_names]
        ctx.claim('two-conformations', len(confs) == 2)
        avr = mol.conformations['AVR']
        per = [{_gkey(g): g for g in c.groups if g.use_in_calculations()} for c in confs]
        dk = lambda d: (d.label, d.group.atom.name, d.group.atom.res_num, d.group.atom.chain_id)
        seen_hetero_partner = False
        for a in avr.groups:
            key = _gkey(a)
            if not all(key in p_ for p_ in per):
                continue
            ctx.claim('pka-is-the-mean', eq(a.pka_value, (per[0][key].pka_value + per[1][key].pka_value) / 2), detail=a.label)
            for kind in KINDS:
                keys = [dk(d) for d in a.determinants[kind]]
                ctx.claim('each-partner-listed-once:' + kind, len(keys) == len(set(keys)), detail='%s: %r' % (a.label, keys))
                for d in a.determinants[kind]:
                    seen_hetero_partner = seen_hetero_partner or d.group.atom.type == 'hetatm'
                    tot = sum((x.value for p_ in per for x in p_[key].determinants[kind] if dk(x) == dk(d)), 0.0)
                    ctx.claim('determinant-is-the-mean-over-the-conformations:' + kind, eq(d.value, tot / 2), detail='%s <- %s' % (a.label, d.label))
        ctx.claim('a-hetero-group-is-among-the-partners', seen_hetero_partner)
    return body


def mk_pipeline_topup(name, twin, truncated):
    """whole pipeline on a two-MODEL file whose second model lacks a side chain, in a structure that also contains two
    residues sharing a number (insertion-coded twins): every conformation ends up with every atom, and the residue's
    group exists in both"""
    def body(ctx):
        from . import micro as M
        from .c19 import truncate_side_chain
        txt = M.text(name)
        src, dst = twin
        txt = ''.join((l[:22] + '%4d' % dst + 'A' + l[27:] + '\n') if (l.startswith('ATOM') and int(l[22:26]) == src) else (l + '\n') for l in txt.split('\n') if l)
        order = ctx.choice('truncated_model', [2, 1])
        parts = [txt, truncate_side_chain(txt, truncated)]
        if order == 1:
            parts.reverse()
        k = ctx.int('shift_thousandths', 0, 2509)
        t = k / 1000.0 if ctx.native else k / 1000

        def tr(a):
            a.y = a.y + t
        mol = M.run(M.models(*parts), transform=tr)
        names = list(mol.conformation_names)
        ctx.claim('two-conformations', len(names) == 2)
        full = sorted(M.akey(a) for a in M.run(txt).conformations['1A'].atoms if a.element != 'H')
        for n in names:
            got = sorted(M.akey(a) for a in mol.conformations[n].atoms if a.element != 'H')
            ctx.claim('conformation-completed', got == full, detail='%s: %d heavy atoms, %d expected; missing %r' % (n, len(got), len(full), sorted(set(full) - set(got))[:4]))
        g0 = sorted(_gkey(g) for g in mol.conformations[names[0]].groups)
        g1 = sorted(_gkey(g) for g in mol.conformations[names[1]].groups)
        ctx.claim('same-groups-in-both-conformations', g0 == g1, detail='only in one: %r' % (sorted(set(g0) ^ set(g1))[:4],))
    return body


def obligations(tier):
    I = 'propka/input.py:'
    M = 'propka/molecular_container.py:MolecularContainer.'
    obs = []
    for seq in NAMING_SEQS:
        obs.append(Obligation('O1-conformation-naming[%s]' % '-'.join(seq), mk_naming(seq), code=[I + 'get_atom_lines_from_pdb'],
                              bounds='record sequence %r; alt-loc character of every atom record symbolic in %r, MODEL numbers in {1,2,3}, '
                                     'symbolic residue digit / insertion code / chain' % (seq, PS.ALTLOCS),
                              claim_doc='name = model number + letter (blank=A, digit d = d-th letter); equal names iff same model and identified tags',
                              max_paths=100000))
    obs.append(Obligation('O1-conformation-sorter', o_sorter, code=[I + 'conformation_sorter'],
                          bounds='model in {1,2,10}, tag symbolic in A-C', claim_doc='orders by model, then tag'))
    obs.append(Obligation('O2-top-up[2 conformations]', mk_topup(2),
                          code=[M + 'top_up_conformations', 'propka/conformation_container.py:ConformationContainer.top_up_from_atoms',
                                'propka/conformation_container.py:ConformationContainer.copy_atom', 'propka/atom.py:Atom.make_copy'],
                          bounds='2 conformations x 5 atom identities (residues 10, 11A of chain A and residue 10 of chain B) with presence chosen by fork; residue A10 ALA or SER per conformation',
                          claim_doc='originals kept; never two residue types at one position; agreed positions completed to the union; copies carry every identity field (incl. insertion code)',
                          max_paths=100000, shards=8, wall_s=170))
    obs.append(Obligation('O2-top-up[3 conformations, one residue]', mk_topup(3, universe=[('N', 10, 'A'), ('CA', 10, 'A'), ('CB', 10, 'A')]), code=obs[-1].code,
                          bounds='3 conformations x 3 atom identities of one residue with presence chosen by fork; residue ALA or SER per conformation',
                          claim_doc=obs[-1].claim_doc, max_paths=200000, shards=8, wall_s=170))
    obs.append(Obligation('O3-average-over-containing-conformations[K=2]', mk_average_presence(2),
                          code=[M + 'average_of_conformations', 'propka/conformation_container.py:ConformationContainer.find_group',
                                'propka/group.py:Group.clone', 'propka/group.py:Group.__iadd__', 'propka/group.py:Group.__truediv__'],
                          bounds='2 conformations; the group exists in a non-empty subset (fork), a second group exists everywhere; all values symbolic',
                          claim_doc='reported once; every averaged field is the mean over the conformations containing the group',
                          stop_on_violation=False))
    obs.append(Obligation('O3-average-mutant-twin', o_average_mutant_twin, code=obs[-1].code,
                          bounds='2 conformations: residue 23 is HIS in one and ASP in the other (either order), a common LYS in both', claim_doc='both mutant groups reported once with their own values'))
    obs.append(Obligation('O4-single-and-identical', o_single_and_identical, code=[M + 'average_of_conformations'],
                          bounds='K in {1,2,3} identical conformations, determinant pattern (2,1,1), symbolic values',
                          claim_doc='the average reproduces the (common) conformation'))
    for name, twin, trunc in ([('pep8', (30, 29), 25)] if tier == 'quick' else [('pep8', (30, 29), 25), ('pep8', (27, 26), 30), ('pair_ASP_ARG', (30, 29), 87)]):
        obs.append(Obligation('O2-pipeline-top-up[%s,%d->%dA,side chain %d missing in one MODEL]' % (name, twin[0], twin[1], trunc), mk_pipeline_topup(name, twin, trunc),
                              code=[M + 'top_up_conformations', 'propka/conformation_container.py:ConformationContainer.top_up_from_atoms', 'propka/conformation_container.py:ConformationContainer.top_up',
                                    'propka/run.py:single (whole pipeline)'],
                              bounds='two-MODEL file from %s with residue %d renumbered %dA (two residues share a number); the side chain of residue %d is missing in MODEL 2 or in MODEL 1; symbolic grid shift' % (name, twin[0], twin[1], trunc),
                              claim_doc='both conformations end up with every heavy atom and the same groups', max_paths=5000, wall_s=170))
    from . import micro as MM
    fxs = [('complex_MTX2', MM.BURIED, 1), ('pair_ASP_ARG', MM.BURIED, 2)] if tier == 'quick' else [('complex_MTX2', MM.BURIED, 1), ('complex_MTX2', None, 2), ('pair_ASP_ARG', MM.BURIED, 2),
                                                                                                        ('complex_ZN', MM.BURIED, 1), ('pep8', MM.COUPLED, 3), ('lig_KNI', None, 1)]
    for name, params, copies in fxs:
        obs.append(Obligation('O5-pipeline-average-of-identical[%s,%d conformation%s%s]' % (name, copies, 's' if copies > 1 else '', ',buried' if params else ''), mk_pipeline_single(name, params, copies),
                              code=[M + 'average_of_conformations', 'propka/group.py:Group.__iadd__', 'propka/group.py:Group.add_determinant', 'propka/group.py:Group.__eq__',
                                    'propka/conformation_container.py:ConformationContainer.find_group', 'propka/run.py:single (whole pipeline)'],
                              bounds='%s as %d identical conformation(s)%s under a symbolic grid shift t in [0,2.509]' % (name, copies, ' with Nmin/Nmax lowered to 6/30' if params else ''),
                              claim_doc='the average reports every group of the conformation once with its pKa, desolvation and determinants, partner by partner',
                              max_paths=5000, wall_s=170 if tier == 'quick' else 1200, split_input=('shift_thousandths', 8) if name.startswith('complex') else None))
    for name, res in ([('complex_ZN', 43)] if tier == 'quick' else [('complex_ZN', 43), ('complex_ZN', 46), ('complex_MTX', 31)]):
        obs.append(Obligation('O5-pipeline-average-with-a-mutant-model[%s,%d->ALA,buried]' % (name, res), mk_pipeline_mutant_model(name, res, MM.BURIED),
                              code=[M + 'average_of_conformations', 'propka/group.py:Group.__iadd__', 'propka/group.py:Group.add_determinant', 'propka/group.py:Group.__eq__',
                                    'propka/conformation_container.py:ConformationContainer.sort_atoms', 'propka/run.py:single (whole pipeline)'],
                              bounds='two MODELs of %s (Nmin/Nmax 6/30), residue %d mutated to ALA in the first or in the second; symbolic grid shift t in [0,2.509]' % (name, res),
                              claim_doc='groups present in both conformations: pKa and every determinant are the means over the two conformations, each partner (told apart by atom and residue) listed once; a hetero partner occurs',
                              max_paths=5000, wall_s=170 if tier == 'quick' else 1200, split_input=('shift_thousandths', 8)))
    if tier == 'thorough':
        obs.append(Obligation('O2-top-up[3 conformations]', mk_topup(3), code=obs[-3].code, bounds='3 conformations x 5 identities',
                              claim_doc=obs[-3].claim_doc, max_paths=2000000, shards=16, wall_s=1500))
        obs.append(Obligation('O3-average-over-containing-conformations[K=3]', mk_average_presence(3), code=obs[-3].code,
                              bounds='3 conformations', claim_doc=obs[-3].claim_doc, stop_on_violation=False))
    return obs


MANIFEST_ENTRY = {
    'level_note': ('O1 on the real record reader with symbolic alt-loc characters; O2 on the real top-up code with atom presence chosen by fork '
                   '(bounded exhaustive over presence patterns, 2 conformations quick / 3 thorough); O3/O4 on average_of_conformations with '
                   'symbolic values and group presence chosen by fork.'
                   ' O5: whole pipeline on 1-3 identical conformations incl. two same-named hetero groups in one chain: the average is the conformation, partner by partner.'),
}
