"""C01 -- every ionizable group is predicted exactly once with the right model
pKa (terminus tagging, atom -> group classification, extraction and report
filter)."""
import itertools
import json
import os

from symx import And, Or, Not, Implies, eq, le, ge, lt, ite
from symx import markers
from symx.runner import Obligation
from . import common as H
from . import pdbstream as PS

PROPERTY = 'C01'
META = {'assumptions': [
    'record streams: K records, each of a concrete kind chosen by fork, with symbolic residue-number digit, insertion code and chain characters',
]}

QUICK_KINDS = ['N', 'CA', 'OXT', "O''", 'H', 'HOH', 'TER', 'MODEL', 'REMARK']
ALL_KINDS = ['N', 'CA', 'OXT', "O''", 'H', 'HETN', 'HOH', 'WATN', 'TER', 'MODEL', 'REMARK']


def mk_tagging(K, kinds, first=None):
    def body(ctx):
        seq = [first] if first else []
        while len(seq) < K:
            seq.append(ctx.choice('kind%d' % len(seq), kinds))
        recs = PS.make_records(ctx, seq, altloc=False, models=(1, 2))
        got = run = PS.run_code(recs)
        exp = PS.run_spec(recs)
        PS.compare(ctx, 'tagging', got, exp)
    return body


# -- O2: atom -> group classification ------------------------------------------------

TABLE = {  # residue type -> (defining atom, model pKa, group type, charge)
    'ASP': ('CG', 3.80, 'COO', -1), 'GLU': ('CD', 4.50, 'COO', -1), 'HIS': ('CG', 6.50, 'HIS', 1),
    'CYS': ('SG', 9.00, 'CYS', -1), 'TYR': ('OH', 10.00, 'TYR', -1), 'LYS': ('NZ', 10.50, 'LYS', 1),
    'ARG': ('CZ', 12.50, 'ARG', 1),
}


def o_protein_classification(ctx):
    """is_group / is_protein_group / Group.setup on every (residue name, atom
    name) of protein_bonds.json x terminal tag x #bonded oxygens"""
    import propka.group as G
    p = H.params()
    bonds = json.load(open(os.path.join(H.REPO, 'propka', 'protein_bonds.json')))
    keys = []
    for res, d in sorted(bonds.items()):
        names = set(d.keys()) | {'N', 'CA', 'C', 'O', 'OXT', "O''"}
        for nm in sorted(names):
            keys.append((res, nm))
    res, nm = ctx.choice('residue_atom', keys)
    # the reader tags only N atoms (N+) and OXT / O'' atoms (C-)
    terminal = ctx.choice('terminal', [None, 'N+']) if nm == 'N' else ('C-' if nm in ('OXT', "O''") else None)
    # the oxygen count is read for backbone C only, the bridge flag for CYS SG only
    n_oxy = ctx.choice('bonded_oxygens', [0, 1, 2]) if nm == 'C' else 0
    bridge = ctx.choice('cysteine_bridge', [False, True]) if (res, nm) == ('CYS', 'SG') else False
    rec = ctx.choice('record', ['atom', 'hetatm'])
    a = H.atom(nm, res, 7, 'A', 0.0, 0.0, 0.0, rec=rec, terminal=terminal)
    a.cysteine_bridge = bridge
    conf = H.conformation()
    conf.add_atom(a)
    for i in range(n_oxy):
        o = H.atom('O%d' % i, res, 7, 'A', 1.2 + i, 0.0, 0.0, rec=rec, element='O')
        conf.add_atom(o)
        a.bonded_atoms.append(o)
        o.bonded_atoms.append(a)
    g = G.is_group(p, a)
    if g is not None:
        g.parameters = p
        g.setup()
    if rec == 'hetatm':
        # amino-acid names in HETATM records are ligand atoms: never a protein group
        ctx.claim('hetatm-not-protein-group', g is None or type(g).__name__ not in
                  ('COOGroup', 'HISGroup', 'CYSGroup', 'TYRGroup', 'LYSGroup', 'ARGGroup', 'NtermGroup', 'CtermGroup', 'BBNGroup', 'BBCGroup'),
                  detail=repr(type(g).__name__))
        return
    ionizable = None
    if terminal == 'N+':
        ionizable = ('N+', 8.00, 'N+', 1)
    elif terminal == 'C-':
        ionizable = ('C-', 3.20, 'COO', -1)
    elif res in TABLE and TABLE[res][0] == nm:
        ionizable = (res,) + TABLE[res][1:]
    if ionizable:
        rt, pk, gt, q = ionizable
        ctx.claim('ionizable-site-recognised', g is not None, detail='%s-%s terminal=%r' % (res, nm, terminal))
        if g is None:
            return
        ctx.claim('residue-type', g.residue_type == rt, detail='%r != %r' % (g.residue_type, rt))
        ctx.claim('model-pka', g.model_pka == pk, detail='%s: %r != %r' % (rt, g.model_pka, pk))
        ctx.claim('group-type-and-charge', g.type == gt and g.charge == q, detail='%r %r' % (g.type, g.charge))
        if rt == 'CYS' and bridge:
            g.calculate_total_pka()
            ctx.claim('bridged-cys-not-titratable', g.titratable is False and g.pka_value == 99.99 and g.use_in_calculations())
        else:
            ctx.claim('titratable', g.titratable is True)
    else:
        # anything else is either no group or a non-titratable helper group
        ctx.claim('nothing-else-is-titratable', g is None or g.titratable is False,
                  detail='%s-%s -> %s titratable' % (res, nm, type(g).__name__ if g else None))
        ctx.claim('nothing-else-is-reported', g is None or not g.use_in_calculations())
        if g is not None:
            expected_helpers = {'BBNGroup', 'BBCGroup', 'AMDGroup', 'TRPGroup', 'ROHGroup'}
            ctx.claim('helper-group-kind', type(g).__name__ in expected_helpers, detail=type(g).__name__)


def o_ion_classification(ctx):
    import propka.group as G
    p = H.params()
    names = sorted(p.ions.keys())
    nm = ctx.choice('ion', names)
    rec = ctx.choice('record', ['atom', 'hetatm'])
    a = H.atom(nm[:2], nm, 7, 'A', 0.0, 0.0, 0.0, rec=rec, element=nm[:2].capitalize())
    conf = H.conformation()
    conf.add_atom(a)
    g = G.is_group(p, a)
    ctx.claim('ion-recognised', g is not None and type(g).__name__ == 'IonGroup')
    g.parameters = p
    g.setup()
    ctx.claim('configured-charge', g.charge == p.ions[nm])
    ctx.claim('ions-not-titrated-not-reported', g.titratable is False and not g.use_in_calculations())
    ctx.claim('ion-is-found-by-get_ions', g.residue_type in p.ions)


LIGAND_CASES = [
    # (sybyl type, #heavy neighbours, neighbour elements, expected class, expected model pKa or None, charge)
    ('N.ar', 2, 'CC', 'NARGroup', 5.00, 1), ('N.ar', 3, 'CCC', None, None, None), ('N.am', 2, 'CC', 'NAMGroup', None, 0),
    ('N.3', 0, '', 'N30Group', 10.0, 1), ('N.3', 1, 'C', 'N31Group', 10.0, 1), ('N.4', 2, 'CC', 'N32Group', 10.0, 1),
    ('N.3', 3, 'CCC', 'N33Group', 10.0, 1), ('N.1', 1, 'C', 'N1Group', None, 0),
    ('F', 1, 'C', 'FGroup', None, 0), ('Cl', 1, 'C', 'ClGroup', None, 0),
    ('O.3', 1, 'P', 'OPGroup', 6.0, -1), ('O.3', 1, 'C', 'OHGroup', None, 0), ('O.3', 2, 'CC', 'O3Group', None, 0),
    ('O.2', 1, 'C', 'O2Group', None, 0), ('S.3', 1, 'C', 'SHGroup', 10.0, -1), ('S.3', 2, 'CC', None, None, None),
    ('C.3', 2, 'CC', None, None, None),
    # a quaternary ammonium (four heavy neighbours) carries no proton: not an ionizable group (N.3 and N.4 spellings)
    ('N.3', 4, 'CCCC', None, None, None), ('N.4', 4, 'CCCC', None, None, None), ('N.4', 3, 'CCC', 'N33Group', 10.0, 1), ('N.4', 1, 'C', 'N31Group', 10.0, 1),
]


def o_ligand_classification(ctx):
    import propka.group as G
    p = H.params()
    sy, nheavy, els, cls, pk, q = ctx.choice('case', LIGAND_CASES)
    a = H.atom(sy[0] + '1', 'LIG', 7, 'A', 0.0, 0.0, 0.0, rec='hetatm', element=sy.split('.')[0])
    a.sybyl_type = sy
    a.sybyl_assigned = True
    a.is_protonated = True      # classification only: no hydrogens built here
    conf = H.conformation()
    conf.add_atom(a)
    for i, el in enumerate(els):
        b = H.atom(el + str(i + 2), 'LIG', 7, 'A', 1.4 * (i + 1), 0.0, 0.0, rec='hetatm', element=el)
        b.sybyl_type = el + '.3'
        conf.add_atom(b)
        a.bonded_atoms.append(b)
        b.bonded_atoms.append(a)
    g = G.is_group(p, a)
    ctx.claim('class', (type(g).__name__ if g is not None else None) == cls, detail='%s/%d -> %s' % (sy, nheavy, type(g).__name__ if g else None))
    if g is None:
        return
    g.parameters = p
    g.setup()
    if pk is not None:
        ctx.claim('configured-model-pka', g.model_pka == p.model_pkas[g.residue_type] == pk and g.titratable)
        ctx.claim('configured-charge', g.charge == p.charge[g.type] == q)
    else:
        ctx.claim('not-titratable', g.titratable is False and g.charge == 0)


# -- O3: extraction and report filter ---------------------------------------------------

def o_report_filter(ctx):
    """every group that use_in_calculations() selects is printed exactly once
    in each section with its own model pKa; nothing else is printed"""
    import propka.output as O
    from .c02 import mk_group
    p = H.params()
    options = H.Opts()
    mol = H.molecule(p, options)
    conf = H.conformation('AVR', p=p, mol=mol)
    specs = [('COOGroup', 'ASP', 'CG', -1), ('CYSGroup', 'CYS', 'SG', -1), ('LYSGroup', 'LYS', 'NZ', 1),
             ('BBNGroup', 'ALA', 'N', 0), ('NtermGroup', 'GLY', 'N', 1), ('CtermGroup', 'GLY', 'OXT', -1),
             ('AMDGroup', 'ASN', 'CG', 0),
             # a ligand carboxylate: its label (type + atom name + chain) carries no residue number, so two
             # copies of the ligand in one chain have identical labels and are told apart by residue number only
             ('OCOGroup', 'ACT', 'C', -1)]
    groups = []
    chains = []
    for i in range(2):
        cls, rn, an, q = ctx.choice('type%d' % i, specs)
        chain = ctx.choice('chain%d' % i, ['A', 'B'])
        g = mk_group(cls, rn, 10 + i, an, chain=chain, q=q, p=p, rec='hetatm' if cls == 'OCOGroup' else 'atom')
        if cls == 'NtermGroup':
            g.residue_type = 'N+'
        if cls == 'CtermGroup':
            g.residue_type = 'C-'
        g.label = g.label   # labels were built by the real constructor
        g.titratable = ctx.choice('titratable%d' % i, [True, False]) if q != 0 else False
        g.exclude_cys_from_results = ctx.choice('exclude_cys%d' % i, [False, True]) if rn == 'CYS' else False
        g.model_pka = p.model_pkas.get(g.residue_type, 0.0)
        g.pka_value = g.model_pka
        groups.append(g)
        if chain not in chains:
            chains.append(chain)
    # the AVR container holds what average_of_conformations puts there
    first = H.conformation('1A', p=p, mol=mol)
    first.groups = groups
    first.chains = chains
    mol.conformation_names = ['1A']
    mol.average_of_conformations()
    avr = mol.conformations['AVR']
    dsec = O.get_determinant_section(mol, 'AVR', p)
    ssec = O.get_summary_section(mol, 'AVR', p)
    for g in groups:
        should = g.titratable or (g.residue_type == 'CYS' and not g.exclude_cys_from_results)
        lab = g.label
        nd = sum(1 for l in dsec.split('\n') if l.startswith(lab + ' '))
        ns = sum(1 for l in ssec.split('\n') if l[3:12] == '%9s' % lab)
        same_label = sum(1 for h in groups if h.label == lab and (h.titratable or (h.residue_type == 'CYS' and not h.exclude_cys_from_results)))
        if should:
            ctx.claim('reported-once-in-determinants', nd == same_label, detail='%r printed %d times' % (lab, nd))
            ctx.claim('reported-once-in-summary', ns == same_label, detail='%r printed %d times' % (lab, ns))
        elif same_label == 0:
            ctx.claim('not-reported', nd == 0 and ns == 0, detail='%r printed %d/%d times' % (lab, nd, ns))
    srows = [l for l in ssec.split('\n') if l.startswith('   ') and len(l) > 30 and l[12] == ' ']
    for g in groups:
        for l in srows:
            if l[3:12] == '%9s' % g.label:
                ctx.claim('summary-shows-model-pka', abs(float(l[21:32]) - g.model_pka) < 0.005)


MODEL_PKA = {'ASP': 3.80, 'GLU': 4.50, 'HIS': 6.50, 'CYS': 9.00, 'TYR': 10.00, 'LYS': 10.50, 'ARG': 12.50, 'N+': 8.00, 'C-': 3.20}
DEFINING = {'ASP': 'CG', 'GLU': 'CD', 'HIS': 'CG', 'CYS': 'SG', 'TYR': 'OH', 'LYS': 'NZ', 'ARG': 'CZ'}


def expected_from_text(txt):
    """executable reading of the statement on a PDB text: {label: (type, bridged)} of the sites that must be reported"""
    exp, sgs = {}, []
    start, prev, had_oxt = True, None, False
    for l in txt.split('\n'):
        if l.startswith('TER') or l.startswith('MODEL'):
            start, prev, had_oxt = True, None, False
            continue
        if not l.startswith('ATOM'):
            continue
        rid = (l[21], int(l[22:26]), l[26])
        res, an = l[17:20], l[12:16].strip()
        lab = '%4d %s' % (rid[1], rid[0])
        if rid != prev:
            if had_oxt:
                start = True
            had_oxt = False
            if start:
                exp['N+ ' + lab] = ('N+', False, rid)
                first_of_chain = rid
                start = False
            prev = rid
        if an == 'OXT':
            exp['C- ' + lab] = ('C-', False, rid)
            had_oxt = True
        if DEFINING.get(res) == an:
            exp[res + lab] = (res, False, rid)
            if res == 'CYS':
                sgs.append((res + lab, float(l[30:38]), float(l[38:46]), float(l[46:54])))
    for i, a in enumerate(sgs):
        for b in sgs[i + 1:]:
            if (a[1] - b[1]) ** 2 + (a[2] - b[2]) ** 2 + (a[3] - b[3]) ** 2 < 2.5 ** 2:
                for k in (a[0], b[0]):
                    exp[k] = (exp[k][0], True, exp[k][2])
    return exp


def mk_pipeline_sites(name, axis, expected_hetero=None, hetero_residues=(), list_all=False):
    """whole pipeline under a symbolic grid translation: exactly the sites of the statement are reported, once, with
    the tabulated model pKa; a disulfide-bridged cysteine is reported as non-titrating (99.99), any other is titrated"""
    def body(ctx):
        from . import micro as M
        txt = M.text(name)
        exp = expected_from_text(txt)
        nterm = {v[2] for v in exp.values() if v[0] == 'N+'}
        k = ctx.int('shift_thousandths', 0, 2509)
        t = k / 1000.0 if ctx.native else k / 1000

        def tr(a):
            if axis == 0:
                a.x = a.x + t
            elif axis == 1:
                a.y = a.y + t
            else:
                a.z = a.z + t
        args = []
        if list_all:
            # 'x all ... titrate-only settings': every residue of the structure listed -- the same sites must be reported,
            # a listed bridged cysteine still as non-titrating 99.99
            res = sorted({(l[21], int(l[22:26])) for l in txt.split('\n') if l.startswith('ATOM')})
            args = ['-i', ','.join('%s:%d' % r for r in res)]
        mol = M.run(txt, args=args, transform=tr)
        rep = M.reported(mol)
        groups = {}
        for g in mol.conformations['AVR'].groups:
            groups.setdefault(g.label.strip(), []).append(g)
        for lab, (typ, bridged, rid) in exp.items():
            if typ in ('ASP', 'CYS', 'HIS') and rid in nterm:
                continue          # side chain of an N-terminal Asp/Cys/His: recorded finding F9 (tracked under C12)
            ctx.claim('site-reported-once', rep.count(lab) == 1, detail='%r reported %d times (%r)' % (lab, rep.count(lab), rep))
            gs = [g for g in groups.get(lab.strip(), []) if g.type in (typ, 'COO' if typ in ('ASP', 'GLU', 'C-') else typ)]
            ctx.claim('site-in-results-once', len(gs) == 1, detail='%r: %d groups' % (lab, len(gs)))
            for g in gs:
                ctx.claim('tabulated-model-pka', g.model_pka == MODEL_PKA[typ], detail='%r: %r' % (lab, g.model_pka))
                if typ == 'CYS':
                    if bridged:
                        ctx.claim('bridged-cysteine-not-titrated', (not g.titratable) and eq(g.pka_value, 99.99), detail='%r: titratable=%r pKa=%r' % (lab, g.titratable, g.pka_value))
                    else:
                        ctx.claim('free-cysteine-titrated', bool(g.titratable), detail=lab)
        p = mol.version.parameters
        het = [g for g in mol.conformations[mol.conformation_names[0]].groups if g.atom.type != 'atom']
        for g in het:
            if g.type == 'ION':
                ctx.claim('ion-gets-configured-charge', g.charge == p.ions[g.atom.res_name.strip()] and not g.titratable, detail='%s: %r' % (g.label, g.charge))
            elif g.titratable:
                ctx.claim('ligand-group-gets-configured-model-pka-and-charge', g.model_pka == p.model_pkas[g.type] and g.charge == p.charge[g.type],
                          detail='%s (%s): model pKa %r, charge %r' % (g.label, g.type, g.model_pka, g.charge))
        if expected_hetero is not None:
            got = sorted((g.label.strip(), g.type) for g in het if g.titratable or g.type == 'ION')
            ctx.claim('hetero-groups-as-expected', got == sorted(expected_hetero), detail='%r' % (got,))
        for lab in rep:
            if lab[:3].strip() in hetero_residues:
                continue      # which of several coupled ligand groups is the titrating one is not part of this property
            ctx.claim('nothing-else-reported', lab in exp, detail='unexpected %r' % lab)
    return body


def obligations(tier):
    I = 'propka/input.py:get_atom_lines_from_pdb'
    G = 'propka/group.py:'
    obs = []
    if tier == 'quick':
        for first in QUICK_KINDS:
            obs.append(Obligation('O1-terminus-tagging[K=3,first=%s]' % first, mk_tagging(3, QUICK_KINDS, first), code=[I, 'propka/atom.py:Atom.__init__', 'propka/atom.py:Atom.set_properties'],
                                  bounds='3 records; first is %s, the others any of %s; per ATOM/HETATM record symbolic residue-number digit in %r, '
                                         'insertion code in %r, chain in %r' % (first, QUICK_KINDS, PS.DIGITS, PS.ICODES, PS.CHAINS),
                                  claim_doc='emitted records, N+/C- tags and conformation names == executable specification of the statement',
                                  max_paths=60000, wall_s=170, stop_on_violation=False))
    else:
        for first in ALL_KINDS:
            obs.append(Obligation('O1-terminus-tagging[K=4,first=%s]' % first, mk_tagging(4, QUICK_KINDS, first), code=[I],
                                  bounds='4 records; first is %s, the others any of %s' % (first, QUICK_KINDS), shards=4,
                                  claim_doc='as quick', max_paths=400000, wall_s=1500, stop_on_violation=False))
        for first in ALL_KINDS:
            obs.append(Obligation('O1-terminus-tagging[K=3,all-kinds,first=%s]' % first, mk_tagging(3, ALL_KINDS, first), code=[I],
                                  bounds='3 records over all 11 kinds', claim_doc='as quick', max_paths=100000, wall_s=900, stop_on_violation=False))
    obs += [
        Obligation('O2-protein-classification', o_protein_classification, code=[G + 'is_group', G + 'is_protein_group', G + 'Group.setup', G + 'Group.use_in_calculations'],
                   bounds='every (residue, atom) name of protein_bonds.json + backbone names x terminal tag in {None,N+,C-} x #bonded O in {0,1,2} '
                          'x bridge flag x record type (finite table, enumerated by solver-checked forks)', max_paths=200000, shards=8,
                   claim_doc='the 9 tabulated site types get their model pKa/charge; nothing else is titratable or reported', kind='table-check', wall_s=170),
        Obligation('O2-ion-classification', o_ion_classification, code=[G + 'is_group', G + 'is_ion_group', G + 'Group.setup'],
                   bounds='every ion name of the shipped cfg x record type', kind='table-check'),
        Obligation('O2-ligand-classification', o_ligand_classification, code=[G + 'is_group', G + 'is_ligand_group_by_groups', G + 'Group.setup'],
                   bounds='17 (sybyl type, heavy-neighbour) environments covering every branch of is_ligand_group_by_groups except '
                          'C.2 (CG/C2N/OCO: needs typed neighbour shells, covered by the ligand micro-structures) and N.pl3', kind='table-check'),
        Obligation('O3-report-filter', o_report_filter,
                   code=['propka/molecular_container.py:MolecularContainer.average_of_conformations', G + 'Group.use_in_calculations',
                         'propka/conformation_container.py:ConformationContainer.get_groups_for_calculations',
                         'propka/output.py:get_determinant_section', 'propka/output.py:get_summary_section', G + 'Group.get_summary_string'],
                   bounds='2 groups, each of 8 kinds (incl. two copies of a ligand carboxylate with identical labels), chain in {A,B}, titratable / exclude-cys flags chosen by fork', max_paths=100000, shards=4,
                   claim_doc='printed exactly once in both sections iff titratable or (CYS and not excluded); model pKa shown', wall_s=170),
    ]
    fx = [('pair_CYS_CYS_bridge_along_x', 0), ('pair_CYS_CYS_bridge', 0), ('pair_GLU_ARG_TYR', 1), ('nterm_ASP_LYS', 2), ('cterm_PHE', 0), ('tri_ASP$25', 1), ('tri_GLU$21', 2)]
    if tier == 'thorough':
        fx += [(n, ax) for n in ('pair_CYS_CYS_bridge_along_x', 'pair_CYS_CYS_bridge', 'pep8', 'pair_ASP_ARG', 'pair_LYS_ASP', 'pair_ASP_ASP', 'tri_CYS', 'tri_HIS', 'tri_TYR') for ax in (0, 1, 2)
               if (n, ax) not in fx]
    # methotrexate: four aromatic ring nitrogens (pteridine N1, N3, N5, N8) and the two glutamate carboxylates (CT, CD); a chloride
    MTX = [('MTX  N1 A', 'NAR'), ('MTX  N3 A', 'NAR'), ('MTX  N5 A', 'NAR'), ('MTX  N8 A', 'NAR'), ('MTX  CT A', 'OCO'), ('MTX  CD A', 'OCO'), ('CL   CL A', 'ION')]
    obs.append(Obligation('O4-pipeline-sites[complex_MTX,x]', mk_pipeline_sites('complex_MTX', 0, MTX, ('MTX', 'CL')),
                          code=['propka/run.py:single (whole pipeline)', G + 'is_ligand_group_by_groups', G + 'is_ion_group', G + 'Group.setup', 'propka/ligand.py:assign_sybyl_type'],
                          bounds='methotrexate + lining residues + chloride (cut from 4DFR) under a symbolic grid translation t in [0, 2.509] along x',
                          claim_doc='protein sites as O4; the ligand\'s ionizable groups and the ion are recognised, each with the model pKa / charge configured for its type',
                          max_paths=5000, wall_s=170, split_input=('shift_thousandths', 8)))
    # a synthetic methyl phosphate beside the tri-peptide: the three terminal phosphate oxygens are ionizable ligand groups (type OP)
    MPO = [('MPO  O1 A', 'OP'), ('MPO  O2 A', 'OP'), ('MPO  O3 A', 'OP')]
    for ax in ((0,) if tier == 'quick' else (0, 1, 2)):
        obs.append(Obligation('O4-pipeline-sites[complex_MPO,%s]' % 'xyz'[ax], mk_pipeline_sites('complex_MPO', ax, MPO, ('MPO',)),
                              code=['propka/run.py:single (whole pipeline)', G + 'is_ligand_group_by_groups', G + 'Group.setup', 'propka/ligand.py:assign_sybyl_type'],
                              bounds='tri_ASP plus a methyl phosphate ligand (synthetic, ideal geometry) under a symbolic grid translation t in [0, 2.509] along %s' % 'xyz'[ax],
                              claim_doc='protein sites as O4; the three terminal phosphate oxygens are recognised as OP groups with the configured model pKa and charge',
                              max_paths=5000, wall_s=170))
    for name, ax in ([('pair_CYS_CYS_bridge', 1), ('pair_GLU_ARG_TYR', 2)] if tier == 'quick' else [('pair_CYS_CYS_bridge', 1), ('pair_GLU_ARG_TYR', 2), ('pep8', 0), ('cterm_PHE', 1), ('pair_CYS_CYS_bridge_along_x', 2)]):
        obs.append(Obligation('O4-pipeline-sites[%s,%s,every residue listed with -i]' % (name, 'xyz'[ax]), mk_pipeline_sites(name, ax, list_all=True),
                              code=['propka/run.py:single (whole pipeline)', 'propka/conformation_container.py:ConformationContainer.init_group', G + 'Group.use_in_calculations', 'propka/output.py:get_summary_section'],
                              bounds='micro-structure %s with --titrate_only naming every residue, under a symbolic grid translation along %s' % (name, 'xyz'[ax]),
                              claim_doc='as O4-pipeline-sites', max_paths=5000, wall_s=170))
    for name, ax in fx:
        obs.append(Obligation('O4-pipeline-sites[%s,%s]' % (name, 'xyz'[ax]), mk_pipeline_sites(name, ax),
                              code=['propka/run.py:single (whole pipeline)', 'propka/bonds.py:BondMaker.find_bonds_for_atoms_using_boxes', 'propka/bonds.py:BondMaker.check_distance',
                                    G + 'Group.setup', 'propka/output.py:get_summary_section'],
                              bounds='micro-structure %s under a symbolic grid translation t in [0, 2.509] along %s' % (name, 'xyz'[ax]),
                              claim_doc='exactly the sites of the statement are in the results and in the summary, once, with the tabulated model pKa; bridged cysteines 99.99 / not titrated, free ones titrated',
                              max_paths=5000, wall_s=170))
    return obs


MANIFEST_ENTRY = {
    'level_note': ('O1: the real get_atom_lines_from_pdb (with the real Atom constructor) on record streams of K=3 (quick) / K=4 (thorough) records; '
                   'record kinds are chosen by fork, residue-number digit / insertion code / chain are symbolic characters; oracle = an '
                   'executable specification of the statement (full residue identity: chain, number, insertion code). O2: finite tables '
                   '(every protein residue/atom name, every configured ion, 17 ligand environments) enumerated through the explorer. '
                   'O3: report filter on 3 groups. Whole-pipeline micro-structure runs are part of C04/C12. Known finding: see known_findings.json.'
                   ' O4: whole pipeline on micro-structures (incl. a ligand/ion complex) under a symbolic grid translation: exactly the sites of the statement reported once with the tabulated model pKa; bridged cysteines 99.99.'),
}
