"""shared builders for harnesses.  propka is imported lazily (inside functions)
so that the runner decides whether the instrumented or the plain package is
loaded in this process."""
import io
import os

REPO = os.environ.get('PROPKA_REPO', '/repo')

_P = {}


def params(fresh=False):
    """the real Parameters object parsed from the shipped propka.cfg"""
    if fresh or 'p' not in _P:
        from propka.parameters import Parameters
        from propka.input import read_parameter_file
        p = read_parameter_file(os.path.join(REPO, 'propka', 'propka.cfg'), Parameters())
        if fresh:
            return p
        _P['p'] = p
    return _P['p']


def version(p=None):
    from propka.version import VersionA
    return VersionA(p or params())


class Opts:
    """minimal stand-in for lib.Options with the shipped defaults"""
    def __init__(self, **kw):
        self.keep_protons = False
        self.protonate_all = False
        self.chains = None
        self.titrate_only = None
        self.display_coupled_residues = False
        self.window = (0.0, 14.0, 1.0)
        self.grid = (0.0, 14.0, 0.1)
        self.filenames = []
        self.__dict__.update(kw)


def real_options(args=()):
    from propka.lib import loadOptions
    return loadOptions(list(args) + ['x.pdb'])


def molecule(p=None, options=None):
    from propka.molecular_container import MolecularContainer
    return MolecularContainer(p or params(), options or Opts())


def conformation(name='1A', p=None, mol=None):
    from propka.conformation_container import ConformationContainer
    mol = mol or molecule(p)
    c = ConformationContainer(name=name, parameters=p or params(), molecular_container=mol)
    mol.conformations[name] = c
    if name not in mol.conformation_names:
        mol.conformation_names.append(name)
    return c


def pdb_line(serial, name, res_name, chain, res_num, x, y, z, rec='ATOM', icode=' ',
             altloc=' ', occ=1.0, beta=0.0, element=None):
    """fixed-column PDB ATOM/HETATM record (name placed per element width)"""
    if element is None:
        element = name.strip()[0]
    if len(name) < 4 and len(element) == 1:
        nm = ' ' + name.ljust(3)
    else:
        nm = name.ljust(4)
    return "%-6s%5d %4s%1s%3s %1s%4d%1s   %8.3f%8.3f%8.3f%6.2f%6.2f          %2s\n" % (
        rec, serial, nm, altloc, res_name, chain, res_num, icode, x, y, z, occ, beta, element.rjust(2))


def atom(name, res_name, res_num, chain, x, y, z, rec='atom', element=None, icode=' ',
         terminal=None, numb=0):
    """a real propka Atom built through its constructor, coordinates may be
    symbolic (assigned after construction, exactly as Atom.set_property does)"""
    from propka.atom import Atom
    a = Atom()
    a.name = name
    a.res_name = "{0:<3s}".format(res_name)
    a.res_num = res_num
    a.chain_id = chain
    a.x, a.y, a.z = x, y, z
    a.type = rec
    a.icode = icode
    a.numb = numb
    a.terminal = terminal
    if element is None:
        element = name[0] if name else ''
    a.element = element
    fmt = "{r.name:3s}{r.res_num:>4d}{r.chain_id:>2s}"
    a.residue_label = fmt.format(r=a)
    return a


def set_xyz(obj, x, y, z):
    obj.x, obj.y, obj.z = x, y, z


def run_text(pdb_text, args=(), name='micro.pdb', write=False):
    """run the real pipeline on a PDB text (stream input)"""
    import propka.run
    return propka.run.single(name, optargs=list(args) + ['--quiet'], stream=io.StringIO(pdb_text),
                             write_pka=write)


def quiet():
    import logging
    logging.getLogger('propka').setLevel(logging.ERROR)
    logging.getLogger('').setLevel(logging.ERROR)


def o_coordinate_fields(ctx):
    """Atom.set_properties reads each coordinate from all 8 columns of its field: every %8.3f rendering in PDB range
    (-999.999 .. 9999.999: blanks, optional sign, 1-4 integer digits, point, 3 decimals) gives exactly that number"""
    from symx import And, Or, Not, Implies, eq
    from symx.sstr import mk, as_els
    import propka.atom as A
    els = list(as_els(pdb_line(1, 'CA', 'ARG', 'A', 10, 1.0, 2.0, 3.0)))
    field = ctx.choice('field', [0, 1, 2])
    start = (30, 38, 46)[field]
    lead = [ctx.string('lead_%d' % j, 1, ' -0123456789') for j in range(4)]
    frac = [ctx.string('frac_%d' % j, 1, '0123456789') for j in range(3)]
    # well formed: blanks, then an optional minus, then at least one digit
    for j in range(4):
        for i in range(j):
            ctx.assume(Implies(Or(lead[j] == ' ', lead[j] == '-'), lead[i] == ' '))
    ctx.assume(Not(Or(lead[3] == ' ', lead[3] == '-')))
    chars = lead + ['.'] + frac
    for j, c in enumerate(chars):
        els[start + j] = as_els(c)[0]
    a = A.Atom(line=mk(els))
    got = (a.x, a.y, a.z)[field]
    if ctx.native:
        expected = float(''.join(chars))
    else:
        import z3
        from symx.core import SReal
        codes = [as_els(c)[0] for c in lead]
        dig = [z3.If(z3.And(c >= 48, c <= 57), z3.ToReal(c - 48), z3.RealVal(0)) for c in codes]
        fr = [z3.ToReal(as_els(c)[0] - 48) for c in frac]
        mag = dig[0] * 1000 + dig[1] * 100 + dig[2] * 10 + dig[3] + fr[0] / 10 + fr[1] / 100 + fr[2] / 1000
        neg = z3.Or([c == 45 for c in codes])
        expected = SReal(z3.If(neg, -mag, mag))
    ctx.claim('coordinate-is-the-number-in-the-field', eq(got, expected), detail='field %d: %r parsed as %r' % (field, chars if ctx.native else '(symbolic)', got))
    others = [v for i, v in enumerate((a.x, a.y, a.z)) if i != field]
    ctx.claim('other-coordinates-untouched', others == [v for i, v in enumerate((1.0, 2.0, 3.0)) if i != field])
