"""C03 -- results are a pure function of input content and options."""
import io
import itertools
import os
import tempfile

from symx import And, Or, Not, Implies, eq
from symx.runner import Obligation
from . import common as H
from . import micro as M

PROPERTY = 'C03'
META = {'assumptions': [
    'object-address dependent iteration order of set(groups) (Group.__hash__ is id()) is modelled as a schedule: every set built in '
    'propka.conformation_container iterates in an order chosen by the explorer',
    'not decided here (operating system / interpreter behaviour with no symbolic content): zip archives; the string hash seed is varied concretely (O6), not symbolically',
]}


class OrderedSet:
    """set stand-in with identity semantics for Group objects (their hash is
    id()) whose iteration / pop order is a permutation chosen by the explorer"""

    def __init__(self, ctx, counter, items=()):
        self._ctx = ctx
        self._counter = counter
        seen = []
        for x in items:
            if not any(x is y for y in seen):
                seen.append(x)
        self._items = seen
        self._dirty = True       # the iteration order is (re)chosen when the set is next iterated / popped after a change

    def _permute(self, items):
        n = len(items)
        if n <= 1:
            return list(items)
        k = self._counter[0]
        self._counter[0] += 1
        perms = list(itertools.permutations(range(n)))
        if n > 4:
            perms = [tuple(range(n)), tuple(reversed(range(n)))] + [tuple(list(range(i, n)) + list(range(i))) for i in range(1, n)]
        p = self._ctx.choice('order_of_set_%d_size_%d' % (k, n), perms)
        return [items[i] for i in p]

    def _settle(self):
        """a real set of Groups iterates in an address-dependent order that is stable until the set changes: choose it now"""
        if self._dirty:
            self._items = self._permute(self._items)
            self._dirty = False

    def __iter__(self):
        self._settle()
        return iter(list(self._items))

    def __len__(self):
        return len(self._items)

    def __contains__(self, x):
        return any(x is y for y in self._items)

    def add(self, x):
        if x not in self:
            self._items.append(x)
            self._dirty = True

    def pop(self):
        if not self._items:
            raise KeyError('pop from an empty set')
        self._settle()
        return self._items.pop(0)

    def __isub__(self, other):
        self._items = [x for x in self._items if not any(x is y for y in other)]
        return self

    def __sub__(self, other):
        r = OrderedSet(self._ctx, self._counter)
        r._items = [x for x in self._items if not any(x is y for y in other)]
        return r

    def __eq__(self, other):
        return len(self) == len(other) and all(x in self for x in other)
    __hash__ = None

    def __ior__(self, other):
        # membership of a union does not depend on the order in which `other` is walked: no order is chosen for it
        for x in (other._items if isinstance(other, OrderedSet) else other):
            self.add(x)
        return self

    def __or__(self, other):
        r = OrderedSet(self._ctx, self._counter)
        r._items = list(self._items)
        r |= other
        return r


def install_sets(ctx):
    """route every set(...) built in propka.conformation_container through
    OrderedSet (instrumented: __sx__.set; plain: module global `set`)"""
    import propka.conformation_container as CC
    counter = [0]

    def factory(*a):
        return OrderedSet(ctx, counter, *a)
    restore = []
    try:
        from symx import instrument
        if getattr(CC, '__sx__', None) is not None:
            old = instrument.SX.set_factory
            instrument.SX.set_factory = factory
            restore.append(lambda: setattr(instrument.SX, 'set_factory', old))
    except Exception:
        pass
    CC.__dict__['set'] = factory
    restore.append(lambda: CC.__dict__.pop('set', None))
    return lambda: [f() for f in restore]


def snapshot(mol):
    import propka.output as O
    p = mol.version.parameters
    out = {'determinants': O.get_determinant_section(mol, 'AVR', p), 'summary': O.get_summary_section(mol, 'AVR', p)}
    out['values'] = sorted((g.label, g.type, round(g.pka_value, 6), g.coupled_titrating_group.label if g.coupled_titrating_group else None,
                            tuple((k, d.label, round(d.value, 6)) for k in ('sidechain', 'backbone', 'coulomb') for d in g.determinants[k]))
                           for g in mol.conformations['AVR'].groups)
    return out


_BASE = {}


def base_snapshot(name, args, params=None):
    key = (name, tuple(args), bool(params))
    if key not in _BASE:
        _BASE[key] = snapshot(M.run(M.text(name), args=list(args), params=params))
    return _BASE[key]


def mk_set_order(name, args, params=None):
    def body(ctx):
        base = base_snapshot(name, args, params)
        undo = install_sets(ctx)
        try:
            mol = M.run(M.text(name), args=list(args), params=params)
        finally:
            undo()
        got = snapshot(mol)
        ctx.claim('values-independent-of-set-order', got['values'] == base['values'],
                  detail='differs: %r' % ([x for x in got['values'] if x not in base['values']][:3],))
        ctx.claim('summary-text-independent-of-set-order', got['summary'] == base['summary'])
        ctx.claim('determinant-text-independent-of-set-order', got['determinants'] == base['determinants'])
    return body


HASH_PATTERNS = {'creation-order': lambda i: i, 'reversed': lambda i: 100000 - i, 'rotated': lambda i: (i + 3) % 7 + 7 * (i // 7),
                 'interleaved': lambda i: (i % 2) * 1000 + i // 2, 'multiples-of-8': lambda i: 8 * i, 'multiples-of-32-descending': lambda i: 32 * (5000 - i)}


def mk_group_hash_values(name, twin=None, params=None, args=()):
    """'whatever ... object addresses are': Group.__hash__ is the object's address, so the iteration order of every set (and
    set comprehension, dict) of groups follows the addresses.  The addresses are replaced by chosen integers -- in creation
    order, reversed, rotated, interleaved, colliding in the low bits -- through the real Group.__hash__ slot (no instrumentation:
    the real built-in sets iterate in the order these values give): the results are the same for every choice"""
    def body(ctx):
        import propka.group as G
        if name == '3SGB-subset':
            # the repository's own test structure (input only), ASP E 175 renumbered 102A: it follows ASP E 102 under the same label,
            # and both take part in iterative interactions with other residues
            txt = open(os.path.join(H.REPO, 'tests', 'pdb', '3SGB-subset.pdb')).read()
            txt = ''.join((l[:22] + ' 102A' + l[27:] + '\n') if (l[:6] in ('ATOM  ', 'HETATM') and l[21:27] == 'E 175 ') else (l + '\n') for l in txt.split('\n') if l)
        else:
            txt = M.text(name)
        if twin == 'B->A':
            # the residues of chain B become insertion-coded residues of chain A (25 B -> 25A A): same-type twins that share a label
            txt = ''.join((l[:21] + 'A' + l[22:26] + 'A' + l[27:] + '\n') if (l.startswith('ATOM') and l[21] == 'B') else (l + '\n') for l in txt.split('\n') if l)
        elif twin:
            src, dst = twin
            txt = ''.join((l[:22] + '%4d' % dst + 'A' + l[27:] + '\n') if (l.startswith('ATOM') and int(l[22:26]) == src) else (l + '\n') for l in txt.split('\n') if l)
        def run_with(pattern):
            f = HASH_PATTERNS[pattern]
            counter = [0]
            old = G.Group.__hash__

            def patched(self):
                r = self.__dict__.get('_address_rank')
                if r is None:
                    r = self.__dict__['_address_rank'] = counter[0]
                    counter[0] += 1
                return f(r)
            G.Group.__hash__ = patched
            try:
                return snapshot(M.run(txt, args=list(args), params=params)), counter[0]
            finally:
                G.Group.__hash__ = old
        # the reference is the run with the addresses in creation order (a run with the real addresses is not a fixed reference
        # if the code under test does depend on them)
        key = ('hash', name, twin, tuple(args), bool(params))
        if key not in _BASE:
            _BASE[key] = run_with('creation-order')[0]
        base = _BASE[key]
        pattern = ctx.choice('hash_values', [p_ for p_ in sorted(HASH_PATTERNS) if p_ != 'creation-order'])
        got, hashed = run_with(pattern)
        counter = [hashed]
        ctx.notes['groups hashed in the patched run'] = counter[0]     # (0 where the unchanged code builds no set or dict of groups)
        ctx.claim('values-independent-of-group-addresses', got['values'] == base['values'],
                  detail='differs: %r' % ([x for x in got['values'] if x not in base['values']][:3],))
        ctx.claim('text-independent-of-group-addresses', got['summary'] == base['summary'] and got['determinants'] == base['determinants'])
    return body


HISTORIES = [
    ('tri_ASP', []), ('pep8', ['-d']), ('lig_MTX', []), ('pair_GLU_ARG_TYR', ['--protonate-all']), ('tri_HIS', ['-k']),
    ('pair_ASP_ASP', ['-c', 'B']), ('pair_LYS_ASP', ['-i', 'A:43']), ('unknown-element', []), ('other-parameters', []),
    ('lig_MTX-other-snapshot', []),     # the same ligand under the same labels with one ring atom out of the plane (types differently)
]


def o_history(ctx):
    """whatever was computed earlier in the process (other structures,
    options, an unknown element, a Parameters object with other coupling
    thresholds, display mode), a run gives the results it gives first"""
    subject, sargs = ctx.choice('subject', [('pair_GLU_ARG_TYR', []), ('pep8', []), ('lig_MTX', []), ('pair_ASP_ASP', ['-d'])])
    first = snapshot(M.run(M.text(subject), args=list(sargs)))
    n = ctx.choice('history_length', [1, 2])
    for i in range(n):
        hname, hargs = ctx.choice('history_%d' % i, HISTORIES)
        try:
            if hname == 'unknown-element':
                txt = M.text('tri_ASP') + H.pdb_line(900, 'XX1', 'UNK', 'A', 900, 30.0, 30.0, 30.0, rec='HETATM', element='Xx')
                M.run(txt)
            elif hname == 'lig_MTX-other-snapshot':
                M.run(M.moved(M.text('lig_MTX'), 161, 'C2', (0.0, 0.6, 0.6)))
            elif hname == 'other-parameters':
                import propka.run as R
                import propka.parameters as PP
                orig = PP.Parameters.parse_line

                def parse(self, line, orig=orig):
                    orig(self, line)
                    self.min_interaction_energy = 0.01
                    self.max_intrinsic_pka_diff = 20.0
                    self.min_swap_pka_shift = 0.0
                    self.max_free_energy_diff = 50.0
                self.desolv_cutoff, self.buried_cutoff, self.coulomb_cutoff2 = 16.0, 12.0, 8.0
                PP.Parameters.parse_line = parse
                try:
                    M.run(M.text('pair_ASP_ASP'), args=['-d'])
                finally:
                    PP.Parameters.parse_line = orig
            else:
                M.run(M.text(hname), args=list(hargs))
        except Exception:
            pass      # a failing earlier run is part of the history too
    again = snapshot(M.run(M.text(subject), args=list(sargs)))
    ctx.claim('values-independent-of-history', again['values'] == first['values'],
              detail='differs: %r' % ([x for x in again['values'] if x not in first['values']][:3],))
    ctx.claim('text-independent-of-history', again['summary'] == first['summary'] and again['determinants'] == first['determinants'])


FRESH_SUBJECTS = [('pair_ASP_ASP', []), ('pair_GLU_ARG_TYR', []), ('lig_MTX', []), ('pep8', ['-d'])]
_FRESH = {}


def _run_history_item(hname, hargs):
    try:
        if hname == 'unknown-element':
            M.run(M.text('tri_ASP') + H.pdb_line(900, 'XX1', 'UNK', 'A', 900, 30.0, 30.0, 30.0, rec='HETATM', element='Xx'))
        elif hname == 'lig_MTX-other-snapshot':
            M.run(M.moved(M.text('lig_MTX'), 161, 'C2', (0.0, 0.6, 0.6)))
        elif hname == 'other-parameters':
            import propka.parameters as PP
            orig = PP.Parameters.parse_line

            def parse(self, line, orig=orig):
                orig(self, line)
                self.min_interaction_energy = 0.01
                self.max_intrinsic_pka_diff = 20.0
                self.min_swap_pka_shift = 0.0
                self.max_free_energy_diff = 50.0
                self.desolv_cutoff, self.buried_cutoff, self.coulomb_cutoff2 = 16.0, 12.0, 8.0
            PP.Parameters.parse_line = parse
            try:
                M.run(M.text('pair_ASP_ASP'), args=['-d'])
            finally:
                PP.Parameters.parse_line = orig
        else:
            M.run(M.text(hname), args=list(hargs))
    except Exception:
        pass


def _fresh_main():
    """child side: run the listed history, then the subject, in THIS (pristine) interpreter; print the snapshot"""
    import json
    import sys
    spec = json.loads(sys.argv[1])
    for hname, hargs in spec['history']:
        _run_history_item(hname, hargs)
    sname, sargs = spec['subject']
    print('SNAPSHOT ' + json.dumps(snapshot(M.run(M.text(sname), args=list(sargs)))))


def fresh(subject, history, hash_seed=None):
    """the snapshot of `subject` computed in a newly started interpreter (plain package, nothing imported or computed
    before) after the given history"""
    import json
    import subprocess
    import sys
    key = json.dumps({'subject': subject, 'history': history})
    ckey = (key, hash_seed)
    if ckey not in _FRESH:
        env = dict(os.environ)
        if hash_seed is not None:
            env['PYTHONHASHSEED'] = str(hash_seed)
        env['PYTHONPATH'] = os.pathsep.join([os.path.dirname(os.path.dirname(os.path.abspath(__file__))), H.REPO])
        r = subprocess.run([sys.executable, '-c', 'from harness import c03; c03._fresh_main()', key], env=env, capture_output=True, text=True, timeout=600)
        line = [l for l in r.stdout.splitlines() if l.startswith('SNAPSHOT ')]
        if not line:
            raise RuntimeError('fresh interpreter failed: ' + r.stderr[-400:])
        _FRESH[ckey] = json.loads(line[-1][9:])
    return _FRESH[ckey]


def o_history_fresh(ctx):
    """as O2, but the reference is the run in a pristine interpreter: state that the very first run of a process
    leaves behind (class-level containers, module caches) cannot hide in the reference"""
    subject = list(ctx.choice('subject', FRESH_SUBJECTS))
    history = [list(ctx.choice('history_0', HISTORIES))]
    if ctx.choice('history_length', [1, 2]) == 2:
        history.append(list(ctx.choice('history_1', HISTORIES[:6])))
    alone = fresh(subject, [])
    after = fresh(subject, history)
    ctx.claim('values-independent-of-history', after['values'] == alone['values'],
              detail='differs: %r' % ([x for x in after['values'] if x not in alone['values']][:3],))
    ctx.claim('text-independent-of-history', after['summary'] == alone['summary'] and after['determinants'] == alone['determinants'])


def o_hash_seed(ctx):
    """the interpreter's string-hash seed (random per process by default) has no influence: the same structure in fresh
    interpreters started with PYTHONHASHSEED = 0..7 gives the same values and text.  Subjects include a file with three
    conformations in which a residue exists only in the second and third (differing) ones."""
    subject = list(ctx.choice('subject', [('tri_SER|BC@37', []), ('pair_GLU_ARG_TYR', []), ('lig_MTX', []), ('pep8', ['-d'])]))
    seed = ctx.choice('hash_seed', [1, 2, 3, 4, 5, 6, 7])
    ref = fresh(subject, [], hash_seed=0)
    got = fresh(subject, [], hash_seed=seed)
    ctx.claim('values-independent-of-hash-seed', got['values'] == ref['values'], detail='seed %d differs: %r' % (seed, [x for x in got['values'] if x not in ref['values']][:2]))
    ctx.claim('text-independent-of-hash-seed', got['summary'] == ref['summary'] and got['determinants'] == ref['determinants'])


def o_path_vs_stream(ctx):
    """the same content given as a path, as a StringIO and twice in one main()
    invocation gives the same .pka text apart from the date line"""
    import propka.run as R
    name = ctx.choice('structure', ['pair_GLU_ARG_TYR', 'pep8', 'lig_MTX', 'pair_ASP_ASP'])
    # the same characters either way: also with CRLF line ends and unpadded TER records
    style = ctx.choice('line_ends', ['LF', 'CRLF', 'CRLF+bare-TER', 'LF+bare-TER'])
    content = M.text(name)
    if 'bare-TER' in style:
        content = content.replace('TER   \n', 'TER\n')
    if style.startswith('CRLF'):
        content = content.replace('\n', '\r\n')
    d = tempfile.mkdtemp(prefix='c03')
    cwd = os.getcwd()
    try:
        os.chdir(d)
        path = os.path.join(d, 'micro.pdb')
        open(path, 'w', newline='').write(content)
        R.single(path, optargs=['--quiet'], write_pka=True)
        a = open('micro.pka').read()
        os.remove('micro.pka')
        R.single('micro.pdb', optargs=['--quiet'], stream=io.StringIO(content), write_pka=True)
        b = open('micro.pka').read()
        os.remove('micro.pka')
        sub = os.path.join(d, 'sub')
        os.mkdir(sub)
        os.chdir(sub)
        R.single(path, optargs=['--quiet'], write_pka=True)
        c = open('micro.pka').read()

        # a working directory that holds files named like the packaged data files, with other content
        import propka
        pkg = os.path.dirname(propka.__file__)
        decoy = os.path.join(d, 'decoy')
        os.mkdir(decoy)
        os.chdir(decoy)
        cfg = open(os.path.join(pkg, 'propka.cfg')).read()
        import re
        open('propka.cfg', 'w').write(re.sub(r'(model_pkas\s+(?:COO|ASP|GLU|HIS|TYR|LYS|ARG|C-|N\+)\s+)([0-9.]+)', lambda m: m.group(1) + '%.2f' % (float(m.group(2)) + 1.0), cfg))
        open('protein_bonds.json', 'w').write('{}')
        open('ions.list', 'w').write('')
        R.single(path, optargs=['--quiet'], write_pka=True)
        e = open('micro.pka').read()
        os.remove('micro.pka')
        R.single('micro.pdb', optargs=['--quiet'], stream=io.StringIO(content), write_pka=True)
        f = open('micro.pka').read()

        def strip(t):
            return '\n'.join(l for l in t.split('\n') if not l.startswith('propka'))
        ctx.claim('path-equals-stream', strip(a) == strip(b))
        ctx.claim('working-directory-irrelevant', strip(a) == strip(c))
        ctx.claim('working-directory-content-irrelevant', strip(a) == strip(e) and strip(a) == strip(f),
                  detail='a working directory holding its own propka.cfg / protein_bonds.json changes the result of a default-option run')
    finally:
        os.chdir(cwd)
        import shutil
        shutil.rmtree(d, ignore_errors=True)


BATCH_NAMES = ['nterm_ASP_LYS', 'pep8', 'pair_ASP_ARG', 'pair_ASP_ASP']
BATCH_OPTIONS = [['-d'], [], ['-d', '--protonate-all'], ['-i', 'A:29,A:30'], ['-c', 'A']]


def o_batch_inputs(ctx):
    return mk_batch_inputs(BATCH_NAMES, BATCH_OPTIONS)(ctx)


def mk_batch_inputs(names, option_sets):
  def body(ctx):
    """several inputs in one invocation of main(): each input's output files are those of the input processed alone
    with the same options (the Options and Parameters objects are shared by the inputs of an invocation)"""
    import glob
    import shutil
    import propka.run as R
    first = ctx.choice('first_input', names)
    second = ctx.choice('second_input', [n for n in names])
    opts = ctx.choice('options', option_sets)
    orig_rpf = R.read_parameter_file

    def rpf(input_file, parameters):
        p = orig_rpf(input_file, parameters)
        for k_, v_ in M.COUPLED.items():
            setattr(p, k_, v_)
        return p

    def outputs(d, inputs):
        cwd = os.getcwd()
        os.chdir(d)
        try:
            for n in set(inputs):
                open(n + '.pdb', 'w').write(M.text(n))
            R.read_parameter_file = rpf
            # further inputs are given with -f; they are processed before the positional one
            argv = opts + ['--quiet']
            for n in inputs[:-1]:
                argv += ['-f', n + '.pdb']
            R.main([argv + [inputs[-1] + '.pdb']])
            out = {}
            for f in sorted(glob.glob('*')):
                if not f.endswith('.pdb'):
                    out[f] = '\n'.join(l for l in open(f).read().split('\n') if not l.startswith('propka'))
            return out
        finally:
            R.read_parameter_file = orig_rpf
            os.chdir(cwd)
    d1, d2 = tempfile.mkdtemp(prefix='c03b'), tempfile.mkdtemp(prefix='c03b')
    try:
        alone = outputs(d1, [second])
        batch = outputs(d2, [first, second])
        mine = {f: t for f, t in batch.items() if f.startswith(second + '.') or f.startswith(second + '_')}
        if first == second:
            mine = batch
        ctx.claim('same-output-files', sorted(mine) == sorted(alone), detail='alone %r, as second input %r' % (sorted(alone), sorted(mine)))
        for f in alone:
            if f in mine:
                ctx.claim('same-output-text', mine[f] == alone[f], detail=f)
    finally:
        shutil.rmtree(d1, ignore_errors=True)
        shutil.rmtree(d2, ignore_errors=True)
  return body


def o_nccg_purity(ctx):
    """the module-level NCCG singleton answers a coupling probe from its
    arguments alone: the same probe on the singleton after an earlier probe
    (other conformation, other energies, same or different pH) equals the
    probe on a fresh NonCovalentlyCoupledGroups object"""
    import propka.coupled_groups as CG
    from .c02 import mk_group
    from .c15 import _fill, PATTERNS
    p = H.params(fresh=True)
    p.pH = ctx.choice('parameters_pH', ['variable', 7.0])

    class Fixed:
        """context stand-in that hands out fixed numbers (the earlier probe's
        structure is concrete; only its energies are symbolic)"""
        def __init__(self):
            self.n = 0

        def real(self, name, lo=None, hi=None):
            self.n += 1
            return [4.25, 0.5, -0.25, 1.5, -0.75, 0.3, 3.9, 0.2, 0.1, -1.1, 0.6][self.n % 11]

    def world(tag, pat, concrete=False):
        g1 = mk_group('COOGroup', 'ASP', 25, 'CG', chain='A', q=-1, p=p)
        g2 = mk_group('COOGroup', 'ASP', 25, 'CG', chain='B', q=-1, p=p)
        g3 = mk_group('TYRGroup', 'TYR', 30, 'OH', q=-1, p=p)
        bb = mk_group('BBNGroup', 'ALA', 31, 'N', q=0, p=p)
        src = Fixed() if concrete else ctx
        _fill(src, g1, tag + 'g1', [g2, g3, bb], pat[0])
        _fill(src, g2, tag + 'g2', [g1, g3, bb], pat[1])
        calls = []

        def energy(ph=None, reference=None):
            v = ctx.real('%s_energy_%d' % (tag, len(calls)), -20, 20)
            calls.append(v)
            return v
        return g1, g2, energy
    pat = PATTERNS[0]
    # earlier probe on the singleton (another structure with its own energies)
    CG.NCCG.parameters = p
    a1, a2, ea = world('A', pat, concrete=True)
    CG.NCCG.is_coupled_protonation_state_probability(a1, a2, ea, return_on_fail=False)
    # the probe under test: same groups' values may coincide with the earlier ones (solver's choice)
    b1, b2, eb = world('B', pat)
    c1, c2, ec = world('C', pat)
    # C is an exact copy of B (same symbolic values) probed on a fresh object
    for src, dst in ((b1, c1), (b2, c2)):
        dst.model_pka, dst.energy_volume, dst.energy_local = src.model_pka, src.energy_volume, src.energy_local
        for k in dst.determinants:
            for ds, dd in zip(src.determinants[k], dst.determinants[k]):
                dd.value = ds.value
        dst.calculate_total_pka()
    vals = []

    def eb2(ph=None, reference=None):
        v = ctx.real('B_energy_%d' % len(vals), -20, 20)
        vals.append(v)
        return v
    seq = []

    def ec2(ph=None, reference=None):
        seq.append(1)
        return vals[len(seq) - 1]
    rb = CG.NCCG.is_coupled_protonation_state_probability(b1, b2, eb2, return_on_fail=False)
    fresh = CG.NonCovalentlyCoupledGroups()
    fresh.parameters = p
    rc = fresh.is_coupled_protonation_state_probability(c1, c2, ec2, return_on_fail=False)
    ctx.claim('same-keys', sorted(rb) == sorted(rc))
    for k in rb:
        if k in rc:
            ctx.claim('singleton-equals-fresh-object:' + k, eq(rb[k], rc[k]) if not isinstance(rb[k], str) else rb[k] == rc[k],
                      detail='%s: %r vs %r' % (k, rb[k], rc[k]))


def o_protonator_purity(ctx):
    """group.PROTONATOR after protonating other atoms (incl. an unknown
    element) places hydrogens exactly like a fresh Protonate object"""
    import propka.group as G
    import propka.protonate as P
    hist = ctx.choice('history', ['unknown-element', 'charged-N', 'none'])

    def amide(tagx):
        conf = H.conformation()
        n = H.atom('N', 'ALA', 5, 'A', tagx, 0.0, 0.0)
        c = H.atom('C', 'GLY', 4, 'A', tagx + 1.33, 0.2, 0.1)
        ca = H.atom('CA', 'ALA', 5, 'A', tagx - 0.6, 1.3, 0.0)
        for a in (n, c, ca):
            conf.add_atom(a)
        for b in (c, ca):
            n.bonded_atoms.append(b)
            b.bonded_atoms.append(n)
        n.num_pi_elec_conj_2_3_bonds = 1
        return conf, n
    if hist == 'unknown-element':
        conf0 = H.conformation()
        x = H.atom('XX', 'UNK', 1, 'A', 0.0, 0.0, 0.0, rec='hetatm', element='Xx')
        conf0.add_atom(x)
        G.PROTONATOR.protonate_atom(x)
    elif hist == 'charged-N':
        conf0 = H.conformation()
        nz = H.atom('NZ', 'LYS', 1, 'A', 0.0, 0.0, 0.0)
        ce = H.atom('CE', 'LYS', 1, 'A', 1.5, 0.0, 0.0)
        nz.bonded_atoms.append(ce)
        ce.bonded_atoms.append(nz)
        conf0.add_atom(nz)
        conf0.add_atom(ce)
        G.PROTONATOR.protonate_atom(nz)
    x0 = ctx.real('x', -3, 3)
    ca_, na = amide(x0)
    cb_, nb = amide(x0)
    G.PROTONATOR.protonate_atom(na)
    P.Protonate().protonate_atom(nb)
    ha = [(a.x, a.y, a.z) for a in na.bonded_atoms if a.element == 'H']
    hb = [(a.x, a.y, a.z) for a in nb.bonded_atoms if a.element == 'H']
    ctx.claim('same-number-of-hydrogens', len(ha) == len(hb) == 1, detail='%r vs %r' % (ha, hb))
    for p_, q_ in zip(ha, hb):
        ctx.claim('same-position', And(eq(p_[0], q_[0]), eq(p_[1], q_[1]), eq(p_[2], q_[2])))


def obligations(tier):
    CC = 'propka/conformation_container.py:ConformationContainer.'
    code = [CC + 'get_coupled_systems', CC + 'get_a_coupled_system_of_groups', CC + 'coupling_effects', CC + 'share_determinants',
            CC + 'set_common_charge_centres', CC + 'find_bonded_titratable_groups', 'propka/group.py:Group.__hash__',
            'propka/coupled_groups.py:NonCovalentlyCoupledGroups.print_out_swaps']
    obs = []
    for name, args, params in (('pep8', [], None), ('pep8', ['-d'], None), ('lig_MTX', [], None), ('lig_KNI', [], None), ('pair_ASP_ASP', ['-d'], M.BURIED),
                               ('pair_ASP_ASP', [], M.BURIED), ('pep8', ['-d'], M.BURIED)):
        obs.append(Obligation('O1-set-iteration-order[%s%s%s]' % (name, ',' + ' '.join(args) if args else '', ',buried' if params else ''), mk_set_order(name, args, params), code=code,
                              bounds='micro-structure %s %s; every set built in conformation_container iterates in every order (all permutations up to size 4, '
                                     'rotations and reversal above)' % (name, ' '.join(args)),
                              shims=['set() in propka.conformation_container -> explorer-ordered set'],
                              claim_doc='reported values and the result text are the same for every iteration order', max_paths=100000, shards=8, wall_s=170,
                              stop_on_violation=False))
    for name, twin, params, args in ([('3SGB-subset', None, None, ()), ('pair_ASP_ASP', 'B->A', M.BURIED, ()), ('pep8', (30, 29), M.BURIED, ('-d',)), ('complex_MTX2', None, M.BURIED, ())] if tier == 'quick' else
                                     [('3SGB-subset', None, None, ()), ('3SGB-subset', None, None, ('-d',)), ('pair_ASP_ASP', 'B->A', M.BURIED, ()), ('pair_ASP_ASP', 'B->A', M.COUPLED, ('-d',)), ('pair_ASP_ARG', (30, 29), M.BURIED, ()), ('pep8', (30, 29), M.BURIED, ('-d',)), ('complex_MTX2', None, M.BURIED, ()), ('pair_ASP_ASP', None, M.COUPLED, ('-d',)),
                                      ('pair_GLU_ARG_TYR', None, M.BURIED, ()), ('pep8', (30, 29), M.COUPLED, ('-d',)), ('complex_ZN', None, M.BURIED, ())]):
        obs.append(Obligation('O1-group-hash-values[%s%s%s]' % (name, (',chain B as insertion-coded residues of chain A' if twin == 'B->A' else ',%d->%dA' % twin) if twin else '', ',' + ' '.join(args) if args else ''), mk_group_hash_values(name, twin, params, args),
                              code=['propka/group.py:Group.__hash__', 'propka/iterative.py:add_determinants', 'propka/conformation_container.py:ConformationContainer.find_covalently_coupled_groups',
                                    'propka/coupled_groups.py:NonCovalentlyCoupledGroups.identify_non_covalently_coupled_groups', 'propka/run.py:single (whole pipeline)'],
                              bounds='structure %s%s (burial switched on%s in the micro-structures; 3SGB-subset: the test structure with ASP E 175 renumbered 102A, shipped parameters); Group.__hash__ returns integers chosen by 6 patterns instead of the address' % (name, (' with chain B renamed to insertion-coded residues of chain A (same-type residues share a label)' if twin == 'B->A' else ' with residue %d renumbered %dA (two residues share a label)' % twin) if twin else '', ', coupling thresholds relaxed' if params is M.COUPLED else ''),
                              kind='table-check', claim_doc='reported values and the result text are the same for every pattern (reference: creation order)', max_paths=50))
    obs.append(Obligation('O2-history-independence', o_history,
                          code=['propka/group.py:PROTONATOR', 'propka/coupled_groups.py:NCCG', 'propka/protonate.py:Protonate.valence_electrons', 'propka/atom.py:Atom (class defaults)',
                                'propka/lib.py:Options (class defaults)', 'propka/ligand.py:assign_sybyl_type', 'propka/run.py:single'],
                          bounds='4 subject runs x histories of 1-2 earlier runs out of 10 (other structures/options, -d, unknown element, modified Parameters, another snapshot of the same ligand under the same labels)',
                          claim_doc='the subject run gives the same values and text before and after the history', max_paths=100000, shards=16, wall_s=170))
    obs.append(Obligation('O2-history-independence[fresh-interpreter]', o_history_fresh,
                          code=['propka/conformation_container.py:ConformationContainer.__init__', 'propka/molecular_container.py:MolecularContainer.__init__', 'propka/group.py:PROTONATOR',
                                'propka/coupled_groups.py:NCCG', 'propka/atom.py:Atom (class defaults)', 'propka/run.py:single'],
                          bounds='4 subject runs x histories of 1-2 earlier runs out of 10, each world in a newly started interpreter; the reference is the subject alone in a pristine interpreter',
                          claim_doc='the subject run after the history gives the values and text of the subject run alone', max_paths=100000, split_input=('history_0', 10), wall_s=170))
    obs.append(Obligation('O4-singleton-purity[NCCG]', o_nccg_purity,
                          code=['propka/coupled_groups.py:NCCG', 'propka/coupled_groups.py:NonCovalentlyCoupledGroups.is_coupled_protonation_state_probability'],
                          bounds='an earlier probe on a concrete structure with symbolic energies, then the probe under test (2 groups + bystander, all values and energies symbolic); pH variable or 7',
                          claim_doc='every entry of the result equals the result of the same probe on a fresh object (no state carried between probes)', max_paths=20000, shards=4))
    obs.append(Obligation('O4-singleton-purity[PROTONATOR]', o_protonator_purity,
                          code=['propka/group.py:PROTONATOR', 'propka/protonate.py:Protonate.protonate_atom'],
                          bounds='amide N at symbolic x after protonating an unknown element / a charged N / nothing', claim_doc='same hydrogen as a fresh Protonate object'))
    obs.append(Obligation('O6-hash-seed', o_hash_seed, code=['propka/molecular_container.py:MolecularContainer.top_up_conformations', 'propka/run.py:single (whole pipeline)'],
                          bounds='4 subjects (one with three conformations, a residue only in the 2nd and 3rd) x PYTHONHASHSEED 1..7 against seed 0, each in a fresh interpreter (28 concrete comparisons)',
                          kind='table-check', claim_doc='values and text identical for every hash seed', max_paths=200, split_input=('subject', 4), wall_s=170))
    obs.append(Obligation('O5-several-inputs-per-invocation', o_batch_inputs, code=['propka/run.py:main', 'propka/lib.py:loadOptions', 'propka/molecular_container.py:MolecularContainer.__init__',
                                                                                 'propka/molecular_container.py:MolecularContainer.find_non_covalently_coupled_groups', 'propka/molecular_container.py:MolecularContainer.write_pka'],
                          bounds='4 x 4 ordered pairs of micro-structures x 5 option sets (-d, none, -d --protonate-all, -i, -c A), coupling thresholds relaxed so that some inputs have coupled groups and some have none (80 concrete invocations)',
                          kind='table-check', claim_doc='the files written for the second input, and their text apart from the date line, are those of the input run alone', max_paths=400, split_input=('first_input', 4), wall_s=170))
    obs.append(Obligation('O3-path-stream-cwd', o_path_vs_stream, code=['propka/input.py:open_file_for_reading', 'propka/input.py:read_molecule_file', 'propka/run.py:single',
                                                                        'propka/molecular_container.py:MolecularContainer.write_pka'],
                          bounds='3 micro-structures: path vs StringIO vs another working directory vs a working directory holding decoy data files (concrete runs)', kind='table-check',
                          claim_doc='.pka text identical apart from the date line; a working directory with its own propka.cfg / protein_bonds.json / ions.list changes nothing'))
    return obs


MANIFEST_ENTRY = {
    'level_note': ('O1: the address-dependent iteration order of set(groups) is made a schedule chosen by the explorer and all orders are compared with the '
                   'default run on micro-structures that have covalently coupled systems (N-terminal Asp, methotrexate ring nitrogens, KNI) and the -d display mode. '
                   'O2: process history chosen by fork (bounded enumeration of 1-2 earlier runs). O3: concrete path/stream/cwd comparison. Hash-seed '
                   'randomisation of str keys, zip archives and multiple inputs per main() invocation are not decided here (no symbolic content).'
                   ' O2[fresh-interpreter], O5 (several inputs per invocation) and O3 (decoy data files in the working directory) are concrete table checks driven through the explorer.'),
}
