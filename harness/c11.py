"""C11 -- covalent bonds are exactly those the pairwise distance rule gives."""
import os
import struct
import subprocess
import tempfile
import time

from symx import And, Or, Not, Implies, eq, le, ge, lt, ite
from symx.runner import Obligation
from . import common as H

PROPERTY = 'C11'
META = {'assumptions': [
    'exact-real coordinates; cell indices floor(x/box) are concretised by solver-checked forks',
    'the oracle is BondMaker.check_distance itself applied to every pair on the same symbols']}

_BM = {}


def bondmaker():
    import propka.bonds as B
    if 'bm' not in _BM:
        _BM['bm'] = B.BondMaker()
    return _BM['bm']


PAIRS_QUICK = [('C', 'C'), ('S', 'S'), ('H', 'C'), ('C', 'H'), ('H', 'H'), ('F', 'F'), ('C', 'S'), ('Cl', 'H')]
PAIRS_THOROUGH = PAIRS_QUICK + [('N', 'O'), ('S', 'C'), ('F', 'C'), ('Hg', 'C'), ('S', 'H'), ('F', 'H')]


def _mk_atoms(ctx, elements, coords):
    atoms = []
    for i, (el, (x, y, z)) in enumerate(zip(elements, coords)):
        a = H.atom(el.upper() + str(i), 'LIG', 1, 'A', x, y, z, rec='hetatm', element=el)
        atoms.append(a)
    return atoms


def _check_pairs(ctx, bm, atoms):
    for i, a in enumerate(atoms):
        ctx.claim('no-self-bond', a not in a.bonded_atoms)
        ctx.claim('no-duplicate-bond', len(a.bonded_atoms) == len(set(map(id, a.bonded_atoms))))
        for b in atoms[i + 1:]:
            bonded = b in a.bonded_atoms
            ctx.claim('symmetric', bonded == (a in b.bonded_atoms))
            expected = bool(bm.check_distance(a, b))
            expected_rev = bool(bm.check_distance(b, a))
            ctx.claim('criterion-symmetric', expected == expected_rev)
            ctx.claim('bond-iff-pair-criterion', bonded == expected,
                      detail='bonded=%s criterion=%s' % (bonded, expected))
            # the criterion itself, written out independently of check_distance: squared distance below the squared
            # cut-off of the element pair (constants of propka.bonds: X-H 1.5, S-S 2.5, otherwise 2.0; H-H never)
            import propka.bonds as PB
            nh = (a.element == 'H') + (b.element == 'H')
            d2 = (a.x - b.x) * (a.x - b.x) + (a.y - b.y) * (a.y - b.y) + (a.z - b.z) * (a.z - b.z)
            if nh == 2:
                spec = False
            else:
                cut = PB.HYDROGEN_DISTANCE if nh == 1 else (PB.DISULFIDE_DISTANCE if (a.element == 'S' and b.element == 'S') else PB.DEFAULT_DISTANCE)
                spec = lt(d2, cut * cut)
            # elements whose symbol merely contains an 'H' (He, Hf, Hg, Ho, Hs) are counted as hydrogens by check_distance
            # (key.count('H')); the statement does not define the criterion, so for them only the comparison with
            # check_distance itself is claimed (DESIGN.md, observations)
            if not any(e in ('He', 'Hf', 'Hg', 'Ho', 'Hs') for e in (a.element, b.element)):
                ctx.claim('bond-iff-distance-below-cutoff', spec if bonded else Not(spec), detail='%s-%s bonded=%s' % (a.element, b.element, bonded))
    # a sulfur is flagged as bridged exactly when it is bonded to (at least one) other sulfur
    for a in atoms:
        if a.element == 'S':
            ctx.claim('disulfide-both-flagged', bool(a.cysteine_bridge) == any(x.element == 'S' for x in a.bonded_atoms), detail='%s: flag %r, bonded to %r' % (a.name, a.cysteine_bridge, [x.name for x in a.bonded_atoms]))
    for a in atoms:
        if not any(x.element == 'S' and x is not a and a.element == 'S' for x in atoms):
            ctx.claim('bridge-flag-only-for-S-S', a.cysteine_bridge is False)


def mk_two(pairs, origin_lo, span, off):
    """two atoms: first in [origin_lo, origin_lo+span)^3, second within +-off
    per axis of the first; order in the list chosen symbolically"""
    def body(ctx):
        bm = bondmaker()
        e1, e2 = ctx.choice('elements', pairs)
        x1 = ctx.real('x1', origin_lo, origin_lo + span, hi_strict=True)
        y1 = ctx.real('y1', origin_lo, origin_lo + span, hi_strict=True)
        z1 = ctx.real('z1', origin_lo, origin_lo + span, hi_strict=True)
        dx = ctx.real('dx', -off, off)
        dy = ctx.real('dy', -off, off)
        dz = ctx.real('dz', -off, off)
        atoms = _mk_atoms(ctx, (e1, e2), ((x1, y1, z1), (x1 + dx, y1 + dy, z1 + dz)))
        order = ctx.choice('order', [(0, 1), (1, 0)])
        bm.find_bonds_for_atoms_using_boxes([atoms[i] for i in order])
        _check_pairs(ctx, bm, atoms)
    return body


def mk_three(origin_lo):
    """three carbons/sulfurs: a, b as in mk_two and c inside a's cell"""
    def body(ctx):
        bm = bondmaker()
        els = ctx.choice('elements', [('C', 'C', 'C'), ('S', 'S', 'S'), ('C', 'H', 'H')])
        span = 2.51
        x1 = ctx.real('x1', origin_lo, origin_lo + span, hi_strict=True)
        y1 = ctx.real('y1', origin_lo, origin_lo + span, hi_strict=True)
        z1 = ctx.real('z1', origin_lo, origin_lo + span, hi_strict=True)
        dx = ctx.real('dx', -2.51, 2.51)
        dy = ctx.real('dy', -2.51, 2.51)
        dz = ctx.real('dz', -2.51, 2.51)
        x3 = ctx.real('x3', origin_lo, origin_lo + span, hi_strict=True)
        y3 = ctx.real('y3', origin_lo, origin_lo + span, hi_strict=True)
        z3_ = ctx.real('z3', origin_lo, origin_lo + span, hi_strict=True)
        atoms = _mk_atoms(ctx, els, ((x1, y1, z1), (x1 + dx, y1 + dy, z1 + dz), (x3, y3, z3_)))
        order = ctx.choice('order', [(0, 1, 2), (2, 1, 0), (1, 2, 0)])
        bm.find_bonds_for_atoms_using_boxes([atoms[i] for i in order])
        _check_pairs(ctx, bm, atoms)
    return body


def mk_collinear(origin_lo, full=True):
    """three atoms on a line parallel to x (1-D: every query is linear in x): X ... H ... Y with both gaps symbolic, so
    that a hydrogen can be within bonding distance of two heavy atoms, or two sulfurs of a third atom; all list orders"""
    def body(ctx):
        bm = bondmaker()
        els = ctx.choice('elements', [('O', 'H', 'O'), ('N', 'H', 'O'), ('S', 'S', 'S'), ('C', 'O', 'H'), ('H', 'O', 'H')] if full else [('O', 'H', 'O'), ('S', 'S', 'S')])
        x1 = ctx.real('x1', origin_lo, origin_lo + 2.51, hi_strict=True)
        d1 = ctx.real('gap1', 0.5, 2.7)
        d2 = ctx.real('gap2', 0.5, 2.7)
        y, z = ctx.choice('yz', [(0.3, 0.4), (-0.2, 2.45)] if full else [(0.3, 0.4)])
        atoms = _mk_atoms(ctx, els, ((x1, y, z), (x1 + d1, y, z), (x1 + d1 + d2, y, z)))
        order = ctx.choice('order', [(0, 1, 2), (2, 1, 0), (1, 2, 0), (1, 0, 2)] if full else [(0, 1, 2), (1, 2, 0)])
        bm.find_bonds_for_atoms_using_boxes([atoms[i] for i in order])
        _check_pairs(ctx, bm, atoms)
    return body


def o_all_pairs(ctx):
    """find_bonds_for_atoms (plain all-pairs loop) and
    find_bonds_for_atoms_disjoint = check_distance on 2 atoms; calling twice
    changes nothing"""
    bm = bondmaker()
    e1, e2 = ctx.choice('elements', [('C', 'C'), ('S', 'S'), ('H', 'C'), ('F', 'F')])
    c = [(0.0, 0.0, 0.0), (ctx.real('x2', -3, 3), ctx.real('y2', -3, 3), ctx.real('z2', -3, 3))]
    which = ctx.choice('function', ['all-pairs', 'disjoint'])
    a = _mk_atoms(ctx, (e1, e2), c)
    if which == 'all-pairs':
        bm.find_bonds_for_atoms(a)
    else:
        bm.find_bonds_for_atoms_disjoint([a[0]], [a[1]])
    _check_pairs(ctx, bm, a)
    n = [len(x.bonded_atoms) for x in a]
    bm.find_bonds_for_atoms(a)
    ctx.claim('idempotent', n == [len(x.bonded_atoms) for x in a])


def o_disulfide_consequence(ctx):
    """a bridged cysteine is not titratable and is reported as 99.99"""
    import propka.group as G
    # the parameter file may give the cysteine sulfur a model pKa of its own (custom_model_pkas CYS-SG, a line a user can add)
    custom = ctx.choice('custom_model_pka_for_CYS_SG', [False, True])
    p = H.params(fresh=True) if custom else H.params()
    model = 9.0
    if custom:
        model = ctx.real('custom_model_pka', 6.0, 11.0)
        p.custom_model_pkas['CYS-SG'] = model
    bridged = ctx.choice('bridged', [False, True])
    sg = H.atom('SG', 'CYS', 5, 'A', 0.0, 0.0, 0.0)
    sg.cysteine_bridge = bridged
    g = G.CYSGroup(sg)
    g.parameters = p
    g.setup()
    ctx.claim('model-pka', eq(g.model_pka, model))
    ctx.claim('titratable-iff-not-bridged', g.titratable == (not bridged))
    g.energy_volume = ctx.real('ev', -5, 5)
    g.energy_local = ctx.real('el', -5, 5)
    g.calculate_total_pka()
    if bridged:
        ctx.claim('bridged-reports-99.99', eq(g.pka_value, 99.99))
    else:
        ctx.claim('free-cys-sum', eq(g.pka_value, model + g.energy_volume + g.energy_local))
    ctx.claim('reported-either-way', g.use_in_calculations() is True)


def o_disulfide_with_selection(ctx):
    """'a bridged cysteine is not titrated' under every --titrate_only setting: the real init_group on a cysteine
    with the bridge flag set / not set, and the option absent, naming this residue, or naming another one"""
    import propka.group as G
    bridged = ctx.choice('bridged', [False, True])
    sel = ctx.choice('titrate_only', ['option-absent', 'names-this-residue', 'names-another-residue', 'empty-list'])
    lst = {'option-absent': None, 'names-this-residue': [('A', 5, ' '), ('B', 7, ' ')], 'names-another-residue': [('A', 6, ' ')], 'empty-list': []}[sel]
    mol = H.molecule(options=H.Opts(titrate_only=lst))
    conf = H.conformation('1A', mol=mol)
    sg = H.atom('SG', 'CYS', 5, 'A', 0.0, 0.0, 0.0)
    sg.cysteine_bridge = bridged
    g = G.CYSGroup(sg)
    conf.init_group(g)
    listed = sel in ('option-absent', 'names-this-residue')
    ctx.claim('titrated-iff-free-and-selected', g.titratable == ((not bridged) and listed), detail='bridged=%r, %s: titratable=%r' % (bridged, sel, g.titratable))
    g.energy_volume = ctx.real('ev', -5, 5)
    g.energy_local = ctx.real('el', -5, 5)
    g.calculate_total_pka()
    if bridged:
        ctx.claim('bridged-reports-99.99', eq(g.pka_value, 99.99))


def o_bonds_per_conformation(ctx):
    """every conformation's bonds come from its own coordinates: two MODELs with identical atom lists in which the
    disulfide is closed in one and open in the other (one SG moved by 3 A), in either order"""
    from . import micro as M
    t = M.text('pair_CYS_CYS_bridge')
    opened = M.moved(t, 58, 'SG', (0.0, 3.0, 0.0))
    order = ctx.choice('open_in_model', [2, 1])
    mol = M.run(M.models(*( [t, opened] if order == 2 else [opened, t])))
    names = list(mol.conformation_names)
    ctx.claim('two-conformations', len(names) == 2)
    for i, n in enumerate(names):
        is_open = (i + 1 == order)
        sgs = [a for a in mol.conformations[n].atoms if a.name == 'SG']
        d2 = (sgs[0].x - sgs[1].x) ** 2 + (sgs[0].y - sgs[1].y) ** 2 + (sgs[0].z - sgs[1].z) ** 2
        bonded = sgs[1] in sgs[0].bonded_atoms
        ctx.claim('ss-bond-from-own-coordinates', bonded == (d2 < 6.25) and bonded == (not is_open), detail='%s: S-S %.2f A, bonded=%r' % (n, d2 ** 0.5, bonded))
        ctx.claim('bridge-flags-from-own-coordinates', all(bool(a.cysteine_bridge) == bonded for a in sgs))
        cys = [g for g in mol.conformations[n].groups if g.type == 'CYS']
        ctx.claim('titrated-iff-not-bridged', all(bool(g.titratable) == is_open for g in cys), detail='%s: %r' % (n, [(g.label, g.titratable) for g in cys]))


# -- floating-point lemma ------------------------------------------------------

def _hexbits(x):
    return '#x%016x' % struct.unpack('>Q', struct.pack('>d', x))[0]


def fp_cell_lemma():
    """QF_FP: for doubles -1000 <= x1 <= x2 <= 10000 whose rounded difference
    squared does not exceed max_sq_distance, the cell indices differ by <= 1.
    Constants are read from the current propka.bonds at run time."""
    import propka.bonds as B
    bm = bondmaker()
    box = max(B.BOX_SIZE, bm.max_sq_distance ** 0.5 + 0.01)
    msq = bm.max_sq_distance
    smt = """(set-logic QF_FP)
(define-fun box () (_ FloatingPoint 11 53) ((_ to_fp 11 53) %s))
(define-fun msq () (_ FloatingPoint 11 53) ((_ to_fp 11 53) %s))
(declare-const x1 (_ FloatingPoint 11 53))
(declare-const x2 (_ FloatingPoint 11 53))
(assert (fp.leq ((_ to_fp 11 53) %s) x1))
(assert (fp.leq x1 x2))
(assert (fp.leq x2 ((_ to_fp 11 53) %s)))
(define-fun d () (_ FloatingPoint 11 53) (fp.sub RNE x2 x1))
(assert (fp.leq (fp.mul RNE d d) msq))
(define-fun c1 () (_ FloatingPoint 11 53) (fp.roundToIntegral RTN (fp.div RNE x1 box)))
(define-fun c2 () (_ FloatingPoint 11 53) (fp.roundToIntegral RTN (fp.div RNE x2 box)))
(assert (fp.gt (fp.sub RNE c2 c1) ((_ to_fp 11 53) %s)))
(check-sat)
""" % (_hexbits(box), _hexbits(msq), _hexbits(-1000.0), _hexbits(10000.0), _hexbits(1.0))
    return smt, box, msq


def o_fp_lemma(ctx):
    """not a path exploration: one QF_FP query discharged by the cvc5 binary
    (z3 does not finish it).  unsat = lemma holds."""
    smt, box, msq = fp_cell_lemma()
    d = tempfile.mkdtemp(prefix='c11fp')
    path = os.path.join(d, 'cell.smt2')
    with open(path, 'w') as fh:
        fh.write(smt)
    t0 = time.time()
    try:
        r = subprocess.run(['cvc5', '--tlimit=600000', path], capture_output=True, text=True, timeout=660)
        out = (r.stdout + r.stderr).strip()
    except subprocess.TimeoutExpired:
        out = 'timeout'
    finally:
        try:
            os.remove(path)
            os.rmdir(d)
        except OSError:
            pass
    ctx.ex.stats.queries += 1
    ctx.ex.stats.solver_s += time.time() - t0
    ctx.notes['cvc5'] = out
    if out.split('\n')[0].strip() == 'unsat' and '(error' not in out:
        ctx.claim('fp-cell-lemma(box=%r,max_sq=%r)' % (box, msq), True)
    elif out.split('\n')[0].strip() == 'sat':
        ctx.claim('fp-cell-lemma', False, detail=out)
    else:
        ctx.ex.stats.inconclusive += 1
        ctx.ex.stats.reasons.append('cvc5: %s' % out[:200])


def obligations(tier):
    B = 'propka/bonds.py:'
    code = [B + 'BondMaker.find_bonds_for_atoms_using_boxes', B + 'BondMaker.find_bonds_for_atoms',
            B + 'BondMaker.find_bonds_for_atoms_disjoint', B + 'BondMaker._find_bonds_for_atoms',
            B + 'BondMaker.check_distance', B + 'BondMaker.make_bond', 'propka/calculations.py:squared_distance']
    obs = []
    pairs = PAIRS_QUICK if tier == 'quick' else PAIRS_THOROUGH
    origins = [0.0, -2.51] if tier == 'quick' else [0.0, -2.51, -5.02, 2.51, 997.49, -999.0]
    for lo in origins:
        for pr in pairs:
            obs.append(Obligation('O1-two-atoms[%s-%s]@%g' % (pr[0], pr[1], lo), mk_two([pr], lo, 2.51, 2.51), code=code,
                                  bounds='elements %s-%s; atom 1 in [%g,%g)^3, atom 2 within +-2.51 per axis (all 27 relative cells); both list orders'
                                         % (pr[0], pr[1], lo, lo + 2.51),
                                  claim_doc='bonded <=> check_distance; symmetric; no self bond; S-S flags both', max_paths=4000 if tier == 'quick' else 20000, wall_s=170 if tier == 'quick' else 900))
    if tier == 'thorough':
        for lo in (0.0, -2.51):
            obs.append(Obligation('O1-far-cells@%g' % lo, mk_two([('C', 'C'), ('S', 'S')], lo, 2.51, 5.02), code=code,
                                  bounds='atom 2 within +-5.02 per axis (125 relative cells incl. non-adjacent)', max_paths=20000, wall_s=900,
                                  claim_doc='no bond across non-adjacent cells unless the criterion says so'))
            obs.append(Obligation('O1-three-atoms@%g' % lo, mk_three(lo), code=code,
                                  bounds='third atom in the first atom\'s cell, 3 list orders', max_paths=30000, wall_s=900))
        obs.append(Obligation('O2-fp-cell-lemma', o_fp_lemma, code=[B + 'BondMaker.find_bonds_for_atoms_using_boxes (cell index kernel floor(x/box), hand-encoded)'],
                              bounds='IEEE double x1<=x2 in [-1000,10000], fl((x2-x1)^2) <= max_sq_distance; constants read from propka.bonds',
                              claim_doc='cell indices of two bondable atoms differ by at most 1 per axis in double arithmetic',
                              wall_s=700, native=None, kind='smt-lemma'))
    for lo in ((0.0, -2.51) if tier == 'quick' else (0.0, -2.51, 997.49, -5.02)):
        obs.append(Obligation('O1-three-atoms-on-a-line@%g' % lo, mk_collinear(lo, tier != 'quick'), code=code + ['propka/bonds.py:BondMaker.make_bond'],
                              bounds='3 atoms on a line parallel to x (%s), first in [%g,%g), gaps in [0.5, 2.7] each, %s list orders' % ('O-H-O and S-S-S' if tier == 'quick' else '5 element triples incl. X-H-Y', lo, lo + 2.51, '2' if tier == 'quick' else '4'),
                              claim_doc='as O1: every pair bonded iff the distance criterion holds (a hydrogen within 1.5 A of two heavy atoms is bonded to both)', max_paths=20000, wall_s=170 if tier == 'quick' else 900,
                              split_input=None if tier == 'quick' else ('elements', 5)))
    obs.append(Obligation('O3-all-pairs-loops', o_all_pairs, code=code,
                          bounds='atom 1 at the origin, atom 2 in [-3,3]^3, 4 element pairs, both pair-loop functions', max_paths=6000))
    obs.append(Obligation('O4-disulfide-consequence', o_disulfide_consequence,
                          code=['propka/group.py:Group.setup', 'propka/group.py:Group.calculate_total_pka', 'propka/group.py:Group.use_in_calculations'],
                          bounds='bridge flag in {0,1}, desolvation terms in [-5,5], parameter file with or without a custom model pKa for CYS-SG (symbolic in [6,11])'))
    obs.append(Obligation('O4-disulfide-consequence[titrate_only]', o_disulfide_with_selection,
                          code=['propka/conformation_container.py:ConformationContainer.init_group', 'propka/group.py:Group.setup', 'propka/group.py:Group.calculate_total_pka'],
                          bounds='bridge flag in {0,1} x --titrate_only absent / naming the residue / naming another / empty', kind='table-check',
                          claim_doc='titratable iff free and selected; a bridged cysteine is never titrated and reports 99.99'))
    obs.append(Obligation('O5-bonds-per-conformation', o_bonds_per_conformation, code=['propka/bonds.py:BondMaker.find_bonds_for_molecules_using_boxes', 'propka/hydrogens.py:setup_bonding', 'propka/run.py:single (whole pipeline)'],
                          bounds='two-MODEL file from the disulfide micro-structure, the S-S bond open (one SG moved 3 A) in MODEL 2 or MODEL 1', kind='table-check',
                          claim_doc='in each conformation the S-S bond, the bridge flags and the titratability of the cysteines follow from that conformation\'s coordinates'))
    return obs


MANIFEST_ENTRY = {
    'level_note': ('Exact-real coordinates (FP only in the thorough cell-index lemma, discharged by the cvc5 binary on a hand-encoded '
                   'kernel floor(x/box) whose constants are read from propka.bonds at run time). Two atoms (three in thorough) with '
                   'symbolic positions: first atom in one cell at/below the origin (quick: [0,2.51)^3 and [-2.51,0)^3), second within one '
                   'cell width per axis; cell indices concretised by forks (the 27 relative placements are exactly the forks). Oracle: '
                   'check_distance on the same symbols. More atoms add only more pairs: every pair is examined by the same code path '
                   '(same-cell loop or one of the 13 half-space offsets), which is what the 2-atom runs cover exhaustively.'),
}
