"""C15 -- coupling analysis observes without disturbing."""
from symx import And, Or, Not, Implies, eq, le, ge, lt, ite
from symx import markers
from symx.runner import Obligation
from . import common as H
from .c02 import mk_group, total, KINDS

PROPERTY = 'C15'
META = {'assumptions': []}


def _fill(ctx, g, tag, partners, pattern):
    """pattern: per kind a tuple of partner indices"""
    from propka.determinant import Determinant
    g.model_pka = ctx.real(tag + '_model', 0, 14)
    g.energy_volume = ctx.real(tag + '_ev', -3, 3)
    g.energy_local = ctx.real(tag + '_el', -3, 3)
    for kind, idxs in zip(KINDS, pattern):
        for i, pi in enumerate(idxs):
            v = ctx.real('%s_%s%d' % (tag, kind[:2], i), -4, 4)
            g.determinants[kind].append(Determinant(partners[pi], v))
    g.calculate_total_pka()


def snapshot(g):
    return {k: [(id(d), d.group, d.label, d.value) for d in g.determinants[k]] for k in KINDS}, g.pka_value


def same_as(ctx, tag, g, snap):
    before, pka0 = snap
    for k in KINDS:
        now = {id(d): d for d in g.determinants[k]}
        ctx.claim(tag + ':same-determinant-objects:' + k, sorted(now) == sorted(i for i, _, _, _ in before[k]))
        for i, grp, lab, val in before[k]:
            d = now.get(i)
            if d is None:
                continue
            ctx.claim(tag + ':label-restored', d.label == lab, detail='%r -> %r' % (lab, d.label))
            ctx.claim(tag + ':partner-unchanged', d.group is grp)
            ctx.claim(tag + ':value-unchanged', eq(d.value, val))
    ctx.claim(tag + ':pka-unchanged', eq(g.pka_value, pka0))
    ctx.claim(tag + ':pka-is-sum', eq(g.pka_value, total(g)))


PATTERNS = [
    # (pattern for g1, pattern for g2); partner indices: 0 = the other group, 1 = third group, 2 = a backbone group
    (((0,), (), (0,)), ((0,), (), (0,))),
    (((0, 1), (2,), (0, 0, 1)), ((1,), (), (0,))),
    (((), (), ()), ((0, 0), (2,), (1, 0))),
    (((1,), (2,), (1,)), ((1,), (), (1,))),
]


def mk_swap(real_energy, q1=None, q2=None, pat_i=None):
    def body(ctx):
        import propka.coupled_groups as CG
        p = H.params(fresh=True)
        nccg = CG.NonCovalentlyCoupledGroups()
        nccg.parameters = p
        mol = H.molecule(p)
        conf = H.conformation('1A', p=p, mol=mol)
        g1 = mk_group('COOGroup' if q1 < 0 else 'LYSGroup', 'ASP' if q1 < 0 else 'LYS', 10, 'CG' if q1 < 0 else 'NZ', q=q1, p=p)
        g2 = mk_group('COOGroup' if q2 < 0 else 'HISGroup', 'GLU' if q2 < 0 else 'HIS', 20, 'CD' if q2 < 0 else 'CG', q=q2, p=p)
        g3 = mk_group('TYRGroup', 'TYR', 30, 'OH', q=-1, p=p)
        bb = mk_group('BBNGroup', 'ALA', 31, 'N', q=0, p=p)
        bb.titratable = False
        pat = PATTERNS[pat_i]
        _fill(ctx, g1, 'g1', [g2, g3, bb], pat[0])
        _fill(ctx, g2, 'g2', [g1, g3, bb], pat[1])
        _fill(ctx, g3, 'g3', [g1, g2, bb], ((), (), ()))
        conf.groups.extend([g1, g2, g3, bb])
        # thresholds symbolic
        p.min_interaction_energy = ctx.real('min_interaction_energy', 0, 2)
        p.max_free_energy_diff = ctx.real('max_free_energy_diff', 0.1, 3)
        p.min_swap_pka_shift = ctx.real('min_swap_pka_shift', 0, 3)
        p.max_intrinsic_pka_diff = ctx.real('max_intrinsic_pka_diff', 0.1, 5)
        rof = ctx.choice('return_on_fail', [True, False])
        if real_energy:
            p.pH = 7.0
            energy = conf.calculate_folding_energy
        else:
            calls = []

            def energy(ph=None, reference=None):
                v = ctx.real('energy_%d' % len(calls), -20, 20)
                calls.append(v)
                return v
        s1, s2, s3 = snapshot(g1), snapshot(g2), snapshot(g3)
        data = nccg.is_coupled_protonation_state_probability(g1, g2, energy, return_on_fail=rof)
        ctx.claim('returns-factor', 'coupling_factor' in data)
        same_as(ctx, 'g1', g1, s1)
        same_as(ctx, 'g2', g2, s2)
        same_as(ctx, 'g3', g3, s3)
        ctx.claim('no-coupling-registered-by-the-probe', not g1.non_covalently_coupled_groups and not g2.non_covalently_coupled_groups)
    return body


def o_swap_involution(ctx):
    """swap_interactions is an involution on (lists, labels, pKa) and moves
    exactly the mutual determinants"""
    import propka.coupled_groups as CG
    p = H.params()
    nccg = CG.NonCovalentlyCoupledGroups()
    nccg.parameters = p
    g1 = mk_group('COOGroup', 'ASP', 10, 'CG', q=-1)
    g2 = mk_group('HISGroup', 'HIS', 20, 'CG', q=1)
    g3 = mk_group('TYRGroup', 'TYR', 30, 'OH', q=-1)
    bb = mk_group('BBNGroup', 'ALA', 31, 'N', q=0)
    pat = ctx.choice('pattern', PATTERNS)
    _fill(ctx, g1, 'g1', [g2, g3, bb], pat[0])
    _fill(ctx, g2, 'g2', [g1, g3, bb], pat[1])
    s1, s2 = snapshot(g1), snapshot(g2)
    n_mutual_1 = sum(1 for k in ('sidechain', 'coulomb') for d in g1.determinants[k] if d.group is g2)
    n_mutual_2 = sum(1 for k in ('sidechain', 'coulomb') for d in g2.determinants[k] if d.group is g1)
    n1 = sum(len(g1.determinants[k]) for k in KINDS)
    n2 = sum(len(g2.determinants[k]) for k in KINDS)
    nccg.swap_interactions([g1], [g2])
    ctx.claim('moves-exactly-the-mutual-ones', sum(len(g1.determinants[k]) for k in KINDS) == n1 - n_mutual_1 + n_mutual_2
              and sum(len(g2.determinants[k]) for k in KINDS) == n2 - n_mutual_2 + n_mutual_1)
    ctx.claim('swapped-pka-is-sum', And(eq(g1.pka_value, total(g1)), eq(g2.pka_value, total(g2))))
    ctx.claim('sum-of-both-conserved', eq(g1.pka_value + g2.pka_value, s1[1] + s2[1]))
    nccg.swap_interactions([g1], [g2])
    same_as(ctx, 'g1', g1, s1)
    same_as(ctx, 'g2', g2, s2)


def o_identify(ctx):
    """identify_non_covalently_coupled_groups (verbose off): relation is
    symmetric, star <=> partner list non-empty, nothing else changes"""
    import propka.coupled_groups as CG
    p = H.params(fresh=True)
    mol = H.molecule(p)
    conf = H.conformation('1A', p=p, mol=mol)
    g1 = mk_group('COOGroup', 'ASP', 10, 'CG', q=-1, p=p)
    g2 = mk_group('COOGroup', 'GLU', 20, 'CD', q=-1, p=p)
    g3 = mk_group('HISGroup', 'HIS', 30, 'CG', q=1, p=p)
    bb = mk_group('BBNGroup', 'ALA', 31, 'N', q=0, p=p)
    bb.titratable = False
    _fill(ctx, g1, 'g1', [g2, g3, bb], ((0,), (2,), (0, 1)))
    _fill(ctx, g2, 'g2', [g1, g3, bb], ((0,), (), (0,)))
    _fill(ctx, g3, 'g3', [g1, g2, bb], ((), (), (0,)))
    import itertools
    order = ctx.choice('order', list(itertools.permutations(range(3))))
    conf.groups.extend([[g1, g2, g3][i] for i in order] + [bb])
    # which pairs "couple" is decided by a stub with one symbolic factor per pair
    nccg = CG.NonCovalentlyCoupledGroups()
    factors = {}

    def probe(a, b, energy_method, return_on_fail=True):
        key = tuple(sorted((a.label, b.label)))
        ctx.claim('pair-visited-once', key not in factors)
        factors[key] = ctx.real('factor_%d' % len(factors), -1, 1)
        return {'coupling_factor': factors[key]}
    nccg.is_coupled_protonation_state_probability = probe
    snaps = [snapshot(g) for g in (g1, g2, g3)]
    markers.enable(ctx)
    nccg.identify_non_covalently_coupled_groups(conf, verbose=False)
    ctx.claim('all-pairs-visited', len(factors) == 3)
    gs = [g1, g2, g3]
    for a in gs:
        for b in gs:
            if a is b:
                ctx.claim('never-self-coupled', a not in a.non_covalently_coupled_groups)
                continue
            ctx.claim('symmetric', (b in a.non_covalently_coupled_groups) == (a in b.non_covalently_coupled_groups))
            key = tuple(sorted((a.label, b.label)))
            ctx.claim('coupled-iff-positive-factor',
                      Implies(lt(0, factors[key]), b in a.non_covalently_coupled_groups)
                      if True else True)
            ctx.claim('not-coupled-otherwise', Implies(le(factors[key], 0), b not in a.non_covalently_coupled_groups))
    for g, s in zip(gs, snaps):
        same_as(ctx, g.label.strip(), g, s)
        row = markers.text_of(g.get_determinant_string())
        ctx.claim('star-iff-partner', (row[16] == '*') == (len(g.non_covalently_coupled_groups) > 0))
    ctx.claim('backbone-group-untouched', not bb.non_covalently_coupled_groups)


def mk_pipeline_quiet(name, twin=None, params=None, debug_logging=False):
    """whole pipeline with and without the coupling search (NCCG.do_prot_stat):
    every pKa and determinant identical in every conformation; stars only
    where a partner was registered; buried parameters so that pairs reach the swap"""
    def body(ctx):
        from . import micro as M
        import propka.coupled_groups as CG
        txt = M.text(name)
        if twin:
            src, dst = twin
            txt = ''.join((l[:22] + '%4d' % dst + 'A' + l[27:] + '\n') if (l.startswith('ATOM') and int(l[22:26]) == src) else (l + '\n')
                          for l in txt.split('\n') if l)
        k = ctx.int('shift_thousandths', 0, 2509)
        t = k / 1000.0 if ctx.native else k / 1000

        def tr(a):
            a.z = a.z + t
        import logging
        old = CG.NCCG.do_prot_stat
        lg = logging.getLogger('propka')
        old_level, old_disable = lg.level, logging.root.manager.disable
        try:
            if debug_logging:
                # a host application that runs with DEBUG logging (messages go nowhere: the output is not the subject)
                logging.disable(logging.NOTSET)
                lg.setLevel(logging.DEBUG)
                if not any(isinstance(x, logging.NullHandler) for x in lg.handlers):
                    lg.addHandler(logging.NullHandler())
                lg.propagate = False
            CG.NCCG.do_prot_stat = False
            off = M.run(txt, transform=tr, params=params or M.BURIED)
            CG.NCCG.do_prot_stat = True
            on = M.run(txt, transform=tr, params=params or M.BURIED)
        finally:
            CG.NCCG.do_prot_stat = old
            lg.setLevel(old_level)
            lg.propagate = True
            logging.disable(old_disable)
        if params is M.COUPLED or '~' in name:
            ctx.claim('coupled-pairs-present', any(g.non_covalently_coupled_groups for g in on.conformations[on.conformation_names[0]].groups))
        for cname in off.conformation_names:
            go, gn = off.conformations[cname].groups, on.conformations[cname].groups
            ctx.claim('same-groups', [g.label for g in go] == [g.label for g in gn])
            for a, b in zip(go, gn):
                ctx.claim('pka-undisturbed', eq(a.pka_value, b.pka_value), detail='%s in %s: %r vs %r' % (a.label, cname, a.pka_value, b.pka_value))
                for kind in KINDS:
                    da = sorted(((d.label, d.value) for d in a.determinants[kind]), key=lambda x: (x[0], float(x[1]) if not hasattr(x[1], 'e') else 0))
                    db = sorted(((d.label, d.value) for d in b.determinants[kind]), key=lambda x: (x[0], float(x[1]) if not hasattr(x[1], 'e') else 0))
                    ctx.claim('determinants-undisturbed', len(da) == len(db) and all(x[0] == y[0] and bool(eq(x[1], y[1])) for x, y in zip(da, db)),
                              detail='%s %s: %r vs %r' % (a.label, kind, da, db))
            # the written determinant section: a listed group's row carries the star exactly when the group has a coupled partner
            import propka.output as O
            text = O.get_determinant_section(on, cname, on.version.parameters)
            listed = [g for g in gn if g.use_in_calculations()]      # backbone groups share their residue's label and have no rows
            labels = [g.label for g in listed]
            for g in listed:
                if labels.count(g.label) != 1:
                    continue
                first_rows = [ln for ln in text.split('\n') if ln.startswith(g.label + ' ') and len(ln) > 40 and ln[10:16].strip()]
                if first_rows:
                    ctx.claim('row-starred-iff-coupled', (first_rows[0][16] == '*') == (len(g.non_covalently_coupled_groups) > 0),
                              detail='%s in %s: row %r, partners %r' % (g.label, cname, first_rows[0][:24], [x.label for x in g.non_covalently_coupled_groups]))
            for g in gn:
                for h in g.non_covalently_coupled_groups:
                    ctx.claim('coupling-symmetric', any(x is g for x in h.non_covalently_coupled_groups), detail='%s lists %s but not the other way round' % (g.label, h.label))
    return body


def mk_after_a_display_run(name, params):
    """a plain run gives the same results before and after a run with --display-coupled-residues in the same process: the display
    mode swaps interactions for its own output and leaves nothing behind (structures with coupled pairs: thresholds relaxed)"""
    def body(ctx):
        from . import micro as M
        import os
        if name == '1HPX':
            # the repository's own test structure (input only, shipped parameters): its coupled system ASP 25 A / ASP 25 B is one
            # whose swapped state differs from the default one; concrete run (no shift: 1500 atoms)
            txt = open(os.path.join(H.REPO, 'tests', 'pdb', '1HPX.pdb')).read()
            tr = None
        else:
            txt = M.text(name)
            k = ctx.int('shift_thousandths', 0, 2509)
            t = k / 1000.0 if ctx.native else k / 1000

            def tr(a):
                a.z = a.z + t
        other = ctx.choice('display_run_on', ['the same structure', 'another structure'])
        before = M.run(txt, transform=tr, params=params)
        M.run(txt if other == 'the same structure' else M.text('pair_ASP_ASP' if name != 'pair_ASP_ASP' else 'pep8'), args=['-d'], params=params if (other == 'the same structure' or params) else M.COUPLED)
        after = M.run(txt, transform=tr, params=params)
        ctx.claim('coupled-pairs-present', any(g.non_covalently_coupled_groups for g in before.conformations[before.conformation_names[0]].groups))
        for cname in list(before.conformation_names) + ['AVR']:
            gb, ga = before.conformations[cname].groups, after.conformations[cname].groups
            ctx.claim('same-groups', [g.label for g in gb] == [g.label for g in ga])
            for a, b in zip(gb, ga):
                ctx.claim('pka-as-before-the-display-run', eq(a.pka_value, b.pka_value), detail='%s in %s: %r vs %r' % (a.label, cname, a.pka_value, b.pka_value))
                for kind in KINDS:
                    da = sorted(((d.label, d.value) for d in a.determinants[kind]), key=lambda x: (x[0], float(x[1]) if not hasattr(x[1], 'e') else 0))
                    db = sorted(((d.label, d.value) for d in b.determinants[kind]), key=lambda x: (x[0], float(x[1]) if not hasattr(x[1], 'e') else 0))
                    ctx.claim('determinants-as-before-the-display-run', len(da) == len(db) and all(x[0] == y[0] and bool(eq(x[1], y[1])) for x, y in zip(da, db)),
                              detail='%s %s: %r vs %r' % (a.label, kind, da, db))
    return body


def obligations(tier):
    CGm = 'propka/coupled_groups.py:NonCovalentlyCoupledGroups.'
    code = [CGm + 'is_coupled_protonation_state_probability', CGm + 'swap_interactions', CGm + 'transfer_determinant',
            CGm + 'get_interaction', 'propka/group.py:Group.calculate_total_pka', 'propka/group.py:Group.calculate_intrinsic_pka']
    obs = []
    for q1 in (-1, 1):
        for q2 in (-1, 1):
            for pi in range(len(PATTERNS)):
                obs.append(Obligation('O1-probe-restores-everything[q=%+d%+d,pattern%d]' % (q1, q2, pi), mk_swap(False, q1, q2, pi), code=code,
                   bounds='2 probed groups with charges (%+d,%+d) + bystander + backbone partner; determinant pattern %d of 4 (up to 3 '
                          'determinants per list incl. several toward the same partner); all values, the 4 thresholds and both energies '
                          'symbolic; return_on_fail in {True, False}' % (q1, q2, pi),
                   shims=['energy_method -> free symbolic value per call'],
                   claim_doc='on every return path each group keeps the same determinant objects with the same label, partner and value, '
                             'and pka_value is unchanged and equals the sum', max_paths=20000, wall_s=170))
    obs += [
        Obligation('O2-swap-is-an-involution', o_swap_involution, code=code[1:5],
                   bounds='4 determinant patterns, all values symbolic',
                   claim_doc='swap;swap = identity; a swap moves exactly the mutual determinants and keeps pka = sum'),
        Obligation('O3-identify-symmetric-and-quiet', o_identify,
                   code=[CGm + 'identify_non_covalently_coupled_groups', 'propka/group.py:Group.couple_non_covalently',
                         'propka/group.py:Group.get_determinant_string'],
                   bounds='3 titratable groups (2 acids, 1 base) in all 6 list orders + 1 backbone group, per-pair coupling factor symbolic in [-1,1]',
                   shims=['is_coupled_protonation_state_probability -> symbolic factor per pair (the probe itself: O1)', 'format markers off'],
                   claim_doc='each unordered pair visited once; relation symmetric; star <=> partner list non-empty; no value changed'),
    ]
    fx = [('pair_ASP_ASP', None), ('pair_ASP_ARG', None), ('pair_ASP_ARG', (30, 29))]
    if tier == 'thorough':
        fx += [('pair_GLU_ARG_TYR', None), ('pair_LYS_ASP', None), ('pep8', None), ('pep8', (30, 29)), ('nterm_ASP_LYS', None)]
    from . import micro as MM0
    for name in (['1HPX', 'pair_ASP_ASP'] if tier == 'quick' else ['1HPX', 'pair_ASP_ASP', 'pep8']):
        obs.append(Obligation('O5-plain-run-after-a-display-run[%s]' % (name if name == '1HPX' else name + ',coupled'), mk_after_a_display_run(name, None if name == '1HPX' else MM0.COUPLED),
                              code=[CGm + 'identify_non_covalently_coupled_groups', CGm + 'print_out_swaps', CGm + 'print_system', CGm + 'swap_interactions', 'propka/run.py:single (whole pipeline)'],
                              bounds=('the test structure 1HPX with the shipped parameters' if name == '1HPX' else 'micro-structure %s (burial on, coupling thresholds relaxed) under a symbolic grid shift' % name) + ': plain run, then a -d run on the same or on another structure, then the plain run again, in one process',
                              claim_doc='every pKa and determinant of the second plain run equals the first', max_paths=5000, wall_s=170 if tier == 'quick' else 900))
    for name, twin in fx:
        obs.append(Obligation('O4-pipeline-undisturbed[%s%s]' % (name, ',%d->%dA' % twin if twin else ''), mk_pipeline_quiet(name, twin),
                              code=[CGm + 'identify_non_covalently_coupled_groups'] + code + ['propka/run.py:single (whole pipeline)'],
                              bounds='micro-structure %s%s, Nmin/Nmax lowered to 6/30 (pairs reach the swap), under a symbolic grid shift; coupling search switched off vs on' % (name, ' with an insertion-coded twin residue' if twin else ''),
                              claim_doc='every pKa and determinant identical with and without the coupling search; coupling symmetric', max_paths=5000, wall_s=170 if tier == 'quick' else 1200))
    from . import micro as M
    NT = 'pair_ASP_ASP~-N-CA-C-O-CB-CG-CD1-CD2@24B'     # chain B starts at ASP 25: that group is penalised through its own N+ and still coupled to ASP 25 A
    for name, dbg in ([('pep8', True), ('pair_ASP_ARG', False), ('complex_MTX2', False), (NT, False)] if tier == 'quick' else [('pep8', False), ('pep8', True), ('pair_ASP_ARG', False), ('pair_ASP_ARG', True), ('pair_ASP_ASP', True), ('pair_LYS_ASP', True), ('pair_GLU_ARG_TYR', False), ('complex_MTX2', False), ('complex_MTX2', True), (NT, False)]):
        obs.append(Obligation('O4-pipeline-undisturbed[%s,%s%s]' % (name, 'buried' if name == NT else 'coupled', ',DEBUG logging' if dbg else ''), mk_pipeline_quiet(name, None, M.BURIED if name == NT else M.COUPLED, dbg),
                              code=[CGm + 'identify_non_covalently_coupled_groups', CGm + 'print_out_swaps', CGm + 'print_system'] + code + ['propka/conformation_container.py:ConformationContainer.find_non_covalently_coupled_groups',
                                                                                                                                       'propka/run.py:single (whole pipeline)'],
                              bounds='micro-structure %s, burial on and coupling thresholds relaxed (coupled pairs present)%s, under a symbolic grid shift; coupling search switched off vs on; no -d' % (name, ', propka logger at DEBUG' if dbg else ''),
                              claim_doc='every pKa and determinant identical with and without the coupling search (display of alternative states not requested); coupling symmetric (partners told apart by identity)', max_paths=5000, wall_s=170 if tier == 'quick' else 1200,
                              split_input=('shift_thousandths', 8) if name.startswith('complex') else None))
    if tier == 'thorough':
        for (q1, q2, pi) in ((-1, 1, 1), (-1, -1, 0), (1, 1, 2)):
          obs.append(Obligation('O1b-probe-with-real-folding-energy[q=%+d%+d,pattern%d]' % (q1, q2, pi), mk_swap(True, q1, q2, pi),
                              code=code + ['propka/conformation_container.py:ConformationContainer.calculate_folding_energy',
                                           'propka/group.py:Group.calculate_folding_energy'],
                              bounds='as O1 with the real folding-energy method at pH 7 (10**x, log10 as axiomatised functions)',
                              claim_doc='as O1', max_paths=20000, wall_s=1200, query_timeout_ms=20000))
    return obs


MANIFEST_ENTRY = {
    'level_note': ('Unit obligations on the swap/evaluate/swap-back probe with symbolic determinant values and thresholds; the energy method '
                   'is a free symbolic value per call in the quick tier (every return path reachable) and the real folding energy in the '
                   'thorough tier. Determinant identity is tracked by object, so order changes inside a list are allowed (they occur).'),
}
