"""format markers: in marker mode SReal.__format__ returns a token and the
context records (value, spec).  The rendered text is real; these helpers map
it back to symbolic values (symbolic mode) or parse the numbers (native)."""
import re

from . import core

TOKEN = re.compile('⟦(\\d+)⟧')
NUM = re.compile(r'[-+]?\d+(?:\.\d+)?(?:[eE][-+]?\d+)?')


def enable(ctx):
    ctx.format_mode = 'marker'


def text_of(s):
    from .sstr import SStr
    if isinstance(s, SStr):
        return s.concretize()
    return s


def fields(ctx, line):
    """numeric fields of a rendered line, in order: list of (value, spec).
    symbolic mode: tokens -> recorded values (plain numbers in the text are
    returned as floats with spec None); native mode: parsed floats."""
    line = text_of(line)
    out = []
    if getattr(ctx, 'native', False):
        for m in NUM.finditer(line):
            out.append((float(m.group(0)), None))
        return out
    pos = 0
    for m in TOKEN.finditer(line):
        for n in NUM.finditer(line[pos:m.start()]):
            out.append((float(n.group(0)), None))
        v, spec = ctx.markers[int(m.group(1))]
        out.append((v, spec))
        pos = m.end()
    for n in NUM.finditer(line[pos:]):
        out.append((float(n.group(0)), None))
    return out


def shown(ctx, a, b, decimals=2):
    """claim helper: printed field `a` shows value `b` (exact symbolically;
    within half a unit of the last printed decimal natively)"""
    if core.is_sym(a) or core.is_sym(b):
        return core.eq(a, b)
    return abs(a - b) <= 0.5 * 10 ** (-decimals) + 1e-9


def spec_decimals(spec):
    m = re.search(r'\.(\d+)f', spec or '')
    return int(m.group(1)) if m else None
