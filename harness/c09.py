"""C09 -- charge curves and isoelectric points follow Henderson-Hasselbalch."""
from symx import And, Or, Not, Implies, eq, le, ge, lt, ite
from symx import markers
from symx.runner import Obligation
from . import common as H

PROPERTY = 'C09'
META = {'assumptions': [
    '10**x is an uninterpreted function E10 with the instantiated axioms listed in coverage.axioms '
    '(positivity, E10(0)=1, strict monotonicity, E10(x)E10(-x)=1)']}


def _group(ctx, q, tag=''):
    import propka.group as G
    cls, rn, an = {-1: (G.COOGroup, 'ASP', 'CG'), 1: (G.LYSGroup, 'LYS', 'NZ'), 'CYS': (G.CYSGroup, 'CYS', 'SG')}[q]
    a = H.atom(an, rn, 10, 'A', 0.0, 0.0, 0.0)
    g = cls(a)
    g.parameters = H.params()
    if q == 'CYS':
        # a cysteine: when it is in a disulfide bridge it is not titratable but still listed in the results
        # (use_in_calculations); it must not enter any charge sum
        q = -1
        g.exclude_cys_from_results = False
    g.charge = q
    g.titratable = True
    g.pka_value = ctx.real('pka' + tag, -20, 40)
    g.model_pka = ctx.real('model_pka' + tag, -20, 40)
    return g


def o_single_site(ctx):
    q = ctx.choice('q', [-1, 1])
    g = _group(ctx, q)
    ph = ctx.real('ph', -10, 30)
    ph2 = ctx.real('ph2', -10, 30)
    p = H.params()
    for state, pk in (('folded', g.pka_value), ('unfolded', g.model_pka)):
        c = g.calculate_charge(p, ph=ph, state=state)
        if q > 0:
            ctx.claim(state + ':between-0-and-formal', And(ge(c, 0), le(c, 1)))
        else:
            ctx.claim(state + ':between-0-and-formal', And(le(c, 0), ge(c, -1)))
        ctx.claim(state + ':half-at-pKa', Implies(eq(ph, pk), eq(c, q / 2.0)))
        c2 = g.calculate_charge(p, ph=ph2, state=state)
        ctx.claim(state + ':never-increases-with-pH', Implies(lt(ph, ph2), le(c2, c)))
        ctx.claim(state + ':strictly-inside', Not(Or(eq(c, 0), eq(c, q))))
        # more than half charged below the pKa for bases / above for acids
        ctx.claim(state + ':side-of-half', Implies(lt(ph, pk), ge(c * q, 0.5) if q > 0 else le(-c, 0.5)))
    # default state is folded, default pH is 7
    ctx.claim('defaults', eq(g.calculate_charge(p), g.calculate_charge(p, ph=7.0, state='folded')))


def _conf_with_groups(ctx, n=3):
    """n groups; Group.calculate_charge stubbed per instance (see below)"""
    import propka.group as G
    mol = H.molecule()
    conf = H.conformation('AVR', mol=mol)
    gs = []
    for i in range(n):
        q = ctx.choice('q%d' % i, [-1, 1] if i else [-1, 1, 'CYS'])
        g = _group(ctx, q, tag=str(i))
        conf.groups.append(g)
        gs.append(g)
    k = ctx.choice('nontitratable', list(range(n)) + [None])
    if k is not None:
        gs[k].titratable = False
    # per-site curves are covered by O1; here every (group, pH, state) charge
    # is an independent symbolic value so that only the summation, ordering
    # and rendering are under test
    memo = {}
    for i, g in enumerate(gs):
        def cc(_, ph=7.0, state='folded', i=i):
            key = (i, repr(ph), state)
            if key not in memo:
                memo[key] = ctx.real('c%d_%s_%d' % (i, state, len(memo)), -3, 3)
            return memo[key]
        g.calculate_charge = cc
    return mol, conf, gs


def o_sum(ctx):
    mol, conf, gs = _conf_with_groups(ctx, 3)
    p = H.params()
    ph = ctx.real('ph', 0, 14)
    unf, fol = conf.calculate_charge(p, ph=ph)
    eu = sum((g.calculate_charge(p, ph=ph, state='unfolded') for g in gs if g.titratable), 0.0)
    ef = sum((g.calculate_charge(p, ph=ph, state='folded') for g in gs if g.titratable), 0.0)
    ctx.claim('first-is-unfolded-sum', eq(unf, eu))
    ctx.claim('second-is-folded-sum', eq(fol, ef))
    # profile rows are [ph, unfolded, folded] on the grid
    # grids whose step has one or several significant digits, starting on and off a multiple of the step
    lo, step = ctx.choice('grid', [(0.0, 1.0), (2.0, 0.25), (0.5, 1.0), (0.0, 2.5), (1.0, 0.125), (3.0, 0.5)])
    # the upper end on a grid point, or beyond the last grid point by less than a step (span not a multiple of the step)
    over = ctx.choice('end_beyond_last_point', [0.0, 0.4, 0.9])
    rows = mol.get_charge_profile('AVR', grid=(lo, lo + (2 + over) * step, step))
    ctx.claim('profile-grid', len(rows) == 3 and all(abs(r[0] - (lo + i * step)) < 1e-9 for i, r in enumerate(rows)),
              detail='grid (%g, %g, %g): reported pH %r' % (lo, lo + 2 * step, step, [r[0] for r in rows]))
    for i, r in enumerate(rows):
        u, f = conf.calculate_charge(p, ph=lo + i * step)
        ctx.claim('profile-row-is-the-charge-at-its-grid-pH', And(eq(r[1], u), eq(r[2], f)))


def o_render(ctx):
    """get_charge_profile_section: columns under 'unfolded  folded' carry the
    unfolded / folded totals, in that order, with 2 decimals; the pI line
    prints (folded, unfolded) from get_pi in that order."""
    import propka.output as O
    mol, conf, gs = _conf_with_groups(ctx, 2)
    mol.options.grid = (3.0, 4.0, 1.0)
    markers.enable(ctx)
    p = H.params()
    # the section can be written for the average or for one conformation: the pI it prints is that conformation's
    which = ctx.choice('conformation', ['AVR', '1A'])
    mol.conformations['1A'] = conf
    pis = {c: (ctx.real('pi_folded_' + c, 0, 14), ctx.real('pi_unfolded_' + c, 0, 14)) for c in ('AVR', '1A')}
    pif, piu = pis[which]
    mol.get_pi = lambda conformation='AVR', **kw: pis[conformation]
    text = markers.text_of(O.get_charge_profile_section(mol, conformation=which))
    lines = text.split('\n')
    ctx.claim('header', lines[1] == '    pH  unfolded  folded')
    rows = lines[2:4]
    for ph, ln in zip((3.0, 4.0), rows):
        f = markers.fields(ctx, ln)
        u, fo = conf.calculate_charge(p, ph=ph)
        ctx.claim('row-has-3-fields', len(f) == 3)
        ctx.claim('row-ph', markers.shown(ctx, f[0][0], ph))
        ctx.claim('row-unfolded-column', markers.shown(ctx, f[1][0], u))
        ctx.claim('row-folded-column', markers.shown(ctx, f[2][0], fo))
        if not ctx.native:
            ctx.claim('two-decimals', all(markers.spec_decimals(s) == 2 for _, s in f[1:]))
    pil = [l for l in lines if l.startswith('The pI is')]
    ctx.claim('pi-line-present', len(pil) == 1)
    f = markers.fields(ctx, pil[0])
    ctx.claim('pi-folded-first', And(markers.shown(ctx, f[0][0], pif), markers.shown(ctx, f[1][0], piu)))
    ctx.claim('pi-words', '(folded)' in pil[0] and pil[0].index('(folded)') < pil[0].index('(unfolded)'))


class _Curve:
    """stub conformation: total-charge curves as fresh symbolic values per
    query, constrained to be non-increasing in pH (justified by O1)."""

    def __init__(self, ctx):
        self.ctx = ctx
        self.log = []   # (ph, unfolded, folded)

    def calculate_charge(self, parameters, ph):
        k = len(self.log)
        u = self.ctx.real('cu_%d' % k, -100, 100)
        f = self.ctx.real('cf_%d' % k, -100, 100)
        for (p0, u0, f0) in self.log:
            self.ctx.assume(Implies(lt(p0, ph), And(le(u, u0), le(f, f0))))
            self.ctx.assume(Implies(lt(ph, p0), And(le(u0, u), le(f0, f))))
            self.ctx.assume(Implies(eq(p0, ph), And(eq(u0, u), eq(f0, f))))
        self.log.append((ph, u, f))
        return u, f


def mk_pi(which):
    def body(ctx):
        mol = H.molecule()
        cur = _Curve(ctx)
        mol.conformations['AVR'] = cur
        lo = ctx.real('lo', -5, 20)
        hi = ctx.real('hi', -5, 20)
        prec = ctx.real('precision', 0.0001, 10)
        ctx.assume(lt(lo, hi))
        ctx.assume(le(hi - lo, 8 * prec))
        # the curve at the window ends (queried first so that the bracket
        # hypothesis can be stated)
        ulo, flo = cur.calculate_charge(None, lo)
        uhi, fhi = cur.calculate_charge(None, hi)
        n0 = len(cur.log)
        res = mol.get_pi('AVR', grid=(lo, hi), precision=prec)
        queries = cur.log[n0:]
        # the two searches run one after the other: folded first
        # split the query log: each search starts at the window midpoint
        mid = (lo + hi) / 2
        ctx.claim('starts-at-midpoint', eq(queries[0][0], mid))
        idx = 0 if which == 'folded' else 1
        col = 2 if which == 'folded' else 1
        p = res[idx]
        clo, chi = (flo, fhi) if which == 'folded' else (ulo, uhi)
        # final bracket reconstructed from this search's queries
        # queries of search k: the log is folded-search then unfolded-search;
        # each search ends with the query whose pH is returned
        ends = [i for i, qy in enumerate(queries) if qy[0] is res[0]]
        cut = ends[0] + 1
        mine = queries[:cut] if which == 'folded' else queries[cut:]
        ctx.claim('returned-value-was-queried-last', mine[-1][0] is p)
        a, b = lo, hi
        ca, cb = clo, chi
        for (ph, u, f) in mine[:-1]:
            c = f if which == 'folded' else u
            pos = lt(0, c)
            a, ca = ite(pos, ph, a), ite(pos, c, ca)
            b, cb = ite(pos, b, ph), ite(pos, cb, c)
        hyp = And(lt(0, clo), le(chi, 0))
        ctx.claim('midpoint-of-final-bracket', eq(p, (a + b) / 2))
        ctx.claim('bracket-within-precision', le(b - a, prec))
        ctx.claim('bracket-inside-window', And(ge(a, lo), le(b, hi), le(a, b)))
        ctx.claim('sign-change-kept', Implies(hyp, And(lt(0, ca), le(cb, 0))))
    return body


FORMAL = {'COO': -1, 'CYS': -1, 'TYR': -1, 'C-': -1, 'HIS': 1, 'LYS': 1, 'ARG': 1, 'N+': 1}


def mk_pipeline_charges(name, shape):
    def body(ctx):
        """the charge curves of a structure that went through the whole pipeline -- as one conformation, as two MODELs, or with
        alternate locations -- are the Henderson-Hasselbalch sum over the reported group records: formal charge of the group
        type (never a fraction of it), reported pKa for the folded and model pKa for the unfolded curve; pH symbolic"""
        from . import micro as M
        txt = M.text(name)
        first = min(int(l[22:26]) for l in txt.split('\n') if l.startswith('ATOM'))
        ca = [l for l in txt.split('\n') if l.startswith('ATOM') and l[12:16].strip() == 'CB'][0]
        if shape == 'two MODELs':
            txt = M.models(txt, M.moved(txt, int(ca[22:26]), 'CB', (0.05, 0.0, 0.0)))
        elif shape == 'alternate locations':
            txt = M.altloc(txt, int(ca[22:26]), 'CB')
        mol = M.run(txt)
        n = {'one conformation': 1}.get(shape, 2)
        ctx.claim('number-of-conformations', len(mol.conformation_names) == n, detail=repr(mol.conformation_names))
        p = mol.conformations['AVR'].parameters
        ph = ctx.real('ph', 0, 14)
        for cname in ['AVR'] + list(mol.conformation_names):
            conf = mol.conformations[cname]
            unf, fol = conf.calculate_charge(p, ph=ph)
            eu, ef = 0.0, 0.0
            for g in conf.groups:
                if not g.titratable:
                    continue
                q = FORMAL[g.type]
                ctx.claim('group-carries-the-formal-charge-of-its-type', g.charge == q, detail='%s %s: %r' % (cname, g.label, g.charge))
                ru, rf = 10 ** (q * (g.model_pka - ph)), 10 ** (q * (g.pka_value - ph))
                eu = eu + q * (ru / (1.0 + ru))
                ef = ef + q * (rf / (1.0 + rf))
            ctx.claim('unfolded-curve-is-the-sum-over-the-records', eq(unf, eu), detail=cname)
            ctx.claim('folded-curve-is-the-sum-over-the-records', eq(fol, ef), detail=cname)
    return body


def obligations(tier):
    G = 'propka/group.py:'
    M = 'propka/molecular_container.py:'
    C = 'propka/conformation_container.py:'
    obs = [
        Obligation('O1-single-site', o_single_site, code=[G + 'Group.calculate_charge'],
                   bounds='charge in {-1,+1}; pKa, model pKa in [-20,40]; pH, pH\' in [-10,30]',
                   claim_doc='0..formal charge, half at pH=pKa, non-increasing in pH, state selects the pKa'),
        Obligation('O2-sum-and-profile', o_sum, code=[C + 'ConformationContainer.calculate_charge', M + 'MolecularContainer.get_charge_profile',
                                                      'propka/lib.py:make_grid'],
                   bounds='3 groups with charges in {-1,+1}, at most one non-titratable, pH in [0,14]; 3-point grid; per-site charges are free symbolic values',
                   shims=['Group.calculate_charge -> free symbolic value per (group, pH, state) (curve itself: O1)'],
                   claim_doc='tuple is (sum unfolded, sum folded) over titratable groups; rows [ph, unf, fold]'),
        Obligation('O3-render', o_render, code=['propka/output.py:get_charge_profile_section'],
                   bounds='2 groups, 2-point grid, symbolic pI values', shims=['format markers', 'get_pi stubbed with symbolic values', 'Group.calculate_charge -> free symbolic values'],
                   claim_doc='printed columns and pI line carry the right quantities in the right order'),
        Obligation('O4-pi-folded', mk_pi('folded'), code=[M + 'MolecularContainer.get_pi'],
                   bounds='window (lo,hi) in [-5,20], precision in [1e-4,10], hi-lo <= 8*precision (<= 4 bisection levels); '
                          'curves = arbitrary non-increasing functions (fresh value per query + pairwise monotonicity)',
                   shims=['conformation.calculate_charge -> symbolic non-increasing curves'],
                   claim_doc='first component = midpoint of a final bracket of width <= precision on the FOLDED curve with the sign change kept',
                   max_paths=5000),
        Obligation('O4-pi-unfolded', mk_pi('unfolded'), code=[M + 'MolecularContainer.get_pi'],
                   bounds='as O4-pi-folded', shims=['conformation.calculate_charge -> symbolic non-increasing curves'],
                   claim_doc='second component likewise on the UNFOLDED curve', max_paths=5000),
    ]
    for name in (['pair_GLU_ARG_TYR'] if tier == 'quick' else ['pair_GLU_ARG_TYR', 'pep8', 'pair_LYS_ASP', 'tri_HIS']):
        for shape in ('one conformation', 'two MODELs', 'alternate locations'):
            obs.append(Obligation('O5-pipeline-charge-curves[%s,%s]' % (name, shape), mk_pipeline_charges(name, shape),
                                  code=['propka/run.py:single (whole pipeline)', M + 'MolecularContainer.average_of_conformations', G + 'Group.__iadd__', G + 'Group.__truediv__', G + 'Group.clone',
                                        C + 'ConformationContainer.calculate_charge', G + 'Group.calculate_charge'],
                                  bounds='micro-structure %s as %s (a CB displaced by 0.05 A in the second one); pH symbolic in [0,14]' % (name, shape),
                                  claim_doc='in every conformation and in the average: each titratable group carries the formal charge of its type, and both curves are the Henderson-Hasselbalch sums over the group records', max_paths=200))
    return obs


MANIFEST_ENTRY = {
    'level_note': ('10**x modelled as uninterpreted E10 with instantiated axioms (positivity, E10(0)=1, strict monotonicity, '
                   'E10(x)E10(-x)=1); exact reals. get_pi is checked with the total-charge curves replaced by arbitrary '
                   'non-increasing symbolic functions and at most 4 bisection levels (hi-lo <= 8*precision); deeper recursion runs '
                   'the same code on a halved bracket (induction argued in DESIGN.md, not solved). Rendering is checked with format markers.'),
}
