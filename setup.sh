#!/bin/bash
# Build the checking environment offline: an overlay venv on /venv (python 3.12,
# the repository's interpreter) with z3-solver from the local wheelhouse.
set -e
cd "$(dirname "$0")"
if [ ! -x .venv/bin/python ] || ! .venv/bin/python -c "import z3" 2>/dev/null; then
  rm -rf .venv
  /venv/bin/python -m venv .venv
  SP=$(.venv/bin/python -c "import site; print(site.getsitepackages()[0])")
  echo "import site; site.addsitedir('/venv/lib/python3.12/site-packages')" > "$SP/_venv_overlay.pth"
  PIP_NO_INDEX=1 .venv/bin/pip install -q --no-index --find-links /opt/veriftools/wheels z3-solver
fi
.venv/bin/python -c "import z3; print('z3', z3.get_version_string())"
