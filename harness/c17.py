"""C17 -- added hydrogens are chemically placed and complete."""
import itertools
import math

from symx import And, Or, Not, Implies, eq, le, ge, lt, ite
from symx.runner import Obligation
from . import common as H
from . import micro as M
from .c04 import rot, ROT24, GENERATORS

PROPERTY = 'C17'
META = {'assumptions': [
    'bond lengths are checked on the constructed position before add_proton rounds it to 0.001 A; rounding moves a coordinate by at most '
    '0.0005, i.e. the length by at most 0.0005*sqrt(3) < 0.0009 (arithmetic, not solved); add_proton\'s rounding itself is checked separately',
]}

# (residue, atom, heavy neighbours, terminal, expected protons, expected steric number)
ENVIRONMENTS = [
    ('ALA', 'N', 2, None, 1, 3),      # backbone amide
    ('PRO', 'N', 3, None, 0, 3),      # proline: no hydrogen
    ('GLY', 'N', 1, 'N+', 3, 4),      # N-terminus
    ('HIS', 'ND1', 2, None, 1, 3), ('HIS', 'NE2', 2, None, 1, 3), ('HIS', 'CG', 3, None, 0, 3),
    ('HIS', 'CD2', 2, None, 1, 3), ('HIS', 'CE1', 2, None, 1, 3),
    ('ARG', 'NE', 2, None, 1, 3), ('ARG', 'NH1', 1, None, 2, 3), ('ARG', 'NH2', 1, None, 2, 3), ('ARG', 'CZ', 3, None, 0, 3),
    ('ASN', 'ND2', 1, None, 2, 3), ('GLN', 'NE2', 1, None, 2, 3), ('TRP', 'NE1', 2, None, 1, 3),
    ('ASN', 'CG', 3, None, 0, 3), ('ASN', 'OD1', 1, None, 0, 3),
    ('LYS', 'NZ', 1, None, 3, 4), ('SER', 'OG', 1, None, 1, 4), ('TYR', 'OH', 1, None, 1, 4),
]


def o_electron_counting(ctx):
    import propka.protonate as P
    import propka.bonds as B
    res, an, nheavy, term, exp_h, exp_sn = ctx.choice('environment', ENVIRONMENTS)
    a = H.atom(an, res, 5, 'A', 0.0, 0.0, 0.0, terminal=term)
    conf = H.conformation()
    conf.add_atom(a)
    for i in range(nheavy):
        b = H.atom('C%d' % i, res, 5, 'A', 1.4, 0.1 * i, 0.0)
        a.bonded_atoms.append(b)
        b.bonded_atoms.append(a)
    from .c11 import bondmaker
    bondmaker().add_pi_electron_table_info([a])
    prot = P.Protonate()
    prot.set_charge(a)
    prot.set_number_of_protons_to_add(a)
    prot.set_steric_number_and_lone_pairs(a)
    ctx.claim('protons-to-add', a.number_of_protons_to_add == exp_h, detail='%s-%s: %d (expected %d)' % (res, an, a.number_of_protons_to_add, exp_h))
    ctx.claim('steric-number', a.steric_number == exp_sn, detail='%s-%s: %d (expected %d)' % (res, an, a.steric_number, exp_sn))
    ctx.claim('lone-pairs-non-negative', a.number_of_lone_pairs >= 0)


def _capture(prot_cls):
    captured = []
    old = prot_cls.add_proton
    prot_cls.add_proton = staticmethod(lambda atom, position: captured.append((atom, position)))
    return captured, old


BOND_LENGTH = {'N': 1.01, 'O': 0.96, 'C': 1.09, 'S': 1.35}


def mk_geometry(case, element):
    def body(ctx):
        """constructed X-H vector has exactly the tabulated length"""
        import propka.protonate as P
        prot = P.Protonate()
        conf = H.conformation()
        # the centre only enters through differences; trigonal: symbolic centre, tetrahedral: fixed (keeps the query small)
        if case == 'trigonal-2':
            c = H.atom(element, 'LIG', 1, 'A', ctx.real('cx', -3, 3), ctx.real('cy', -3, 3), ctx.real('cz', -3, 3), element=element)
        else:
            c = H.atom(element, 'LIG', 1, 'A', 0.25, -1.5, 2.0, element=element)
        conf.add_atom(c)
        n = {'trigonal-2': 2, 'tetrahedral-2': 2, 'tetrahedral-3': 3}[case]
        pts = [(ctx.real('x0', -2, 2), ctx.real('y0', -2, 2), ctx.real('z0', -2, 2))]
        if n >= 2:
            pts.append((1.25, 0.75, -0.5) if case != 'trigonal-2' else (ctx.real('x1', -2, 2), ctx.real('y1', -2, 2), -0.5))
        if n == 3:
            pts.append((-0.5, -0.75, 1.0))
        for p in pts:
            ctx.assume(Not(And(eq(p[0], 0), eq(p[1], 0), eq(p[2], 0))))
        if n == 2:
            cx = pts[0][1] * pts[1][2] - pts[0][2] * pts[1][1]
            cy = pts[0][2] * pts[1][0] - pts[0][0] * pts[1][2]
            cz = pts[0][0] * pts[1][1] - pts[0][1] * pts[1][0]
            ctx.assume(ge(cx * cx + cy * cy + cz * cz, 0.01))      # clearly not collinear
        else:
            d = ((pts[0][1] * pts[1][2] - pts[0][2] * pts[1][1]) * pts[2][0] + (pts[0][2] * pts[1][0] - pts[0][0] * pts[1][2]) * pts[2][1]
                 + (pts[0][0] * pts[1][1] - pts[0][1] * pts[1][0]) * pts[2][2])
            ctx.assume(Or(ge(d, 0.1), le(d, -0.1)))       # clearly not coplanar
        for i, p in enumerate(pts):
            b = H.atom('C%d' % i, 'LIG', 1, 'A', c.x + p[0], c.y + p[1], c.z + p[2])
            c.bonded_atoms.append(b)
            b.bonded_atoms.append(c)
            conf.add_atom(b)
        c.number_of_protons_to_add = 1
        captured, old = _capture(P.Protonate)
        try:
            if case == 'trigonal-2':
                prot.trigonal(c)
            else:
                prot.tetrahedral(c)
        finally:
            P.Protonate.add_proton = old
        ctx.claim('one-hydrogen-constructed', len(captured) == 1)
        if len(captured) == 1:
            atom, pos = captured[0]
            dx, dy, dz = pos.x - c.x, pos.y - c.y, pos.z - c.z
            from fractions import Fraction
            # elements outside the table get the program's documented standard value of 1.0 A
            L = Fraction(repr(BOND_LENGTH.get(element, 1.0)))      # exact decimal, not the double product
            ctx.claim('bond-length', eq(dx * dx + dy * dy + dz * dz, L * L))
            if case == 'trigonal-2':
                # -a1-a2 makes an obtuse angle with both neighbours (for any geometry)
                ctx.claim('hydrogen-on-the-open-side', And(*[le(dx * p[0] + dy * p[1] + dz * p[2], 0) for p in pts]))
    return body


def mk_order_independence(case):
    def body(ctx):
        """the constructions are symmetric in the neighbours: the order of
        atom.bonded_atoms (which depends on the frame through the cell list)
        does not influence the constructed position"""
        import propka.protonate as P
        prot = P.Protonate()
        n = 2 if case == 'trigonal-2' else 3

        def ex(v):
            # fixed coordinates as exact symbolic numerals: otherwise sums of two concrete floats are
            # rounded natively while sums with a symbolic operand are exact, and orders differ by 1e-17
            if ctx.native:
                return v
            from symx import SReal, rv
            return SReal(rv(v))
        # every neighbour has a symbolic coordinate, so that no bond vector is normalised natively (in rounded doubles)
        pts = [(ctx.real('x0', -2, 2), ctx.real('y0', -2, 2), ex(-1.0)), (ctx.real('x1', 1.0, 1.5), ex(0.75), ex(-0.5)), (ex(-0.5), ctx.real('y2', -1.0, -0.5), ex(1.0))][:n]
        ctx.assume(Not(And(eq(pts[0][0], 0), eq(pts[0][1], 0), eq(pts[0][2], 0))))
        if n == 2:
            cx = pts[0][1] * pts[1][2] - pts[0][2] * pts[1][1]
            cy = pts[0][2] * pts[1][0] - pts[0][0] * pts[1][2]
            cz = pts[0][0] * pts[1][1] - pts[0][1] * pts[1][0]
            ctx.assume(ge(cx * cx + cy * cy + cz * cz, 0.01))      # clearly not collinear
        else:
            d = ((pts[0][1] * pts[1][2] - pts[0][2] * pts[1][1]) * pts[2][0] + (pts[0][2] * pts[1][0] - pts[0][0] * pts[1][2]) * pts[2][1]
                 + (pts[0][0] * pts[1][1] - pts[0][1] * pts[1][0]) * pts[2][2])
            ctx.assume(Or(ge(d, 0.1), le(d, -0.1)))       # clearly not coplanar

        def build(order):
            conf = H.conformation()
            c = H.atom('N', 'LIG', 1, 'A', ex(0.25), ex(-1.5), ex(2.0))
            conf.add_atom(c)
            for i in order:
                p = pts[i]
                b = H.atom('C%d' % i, 'LIG', 1, 'A', c.x + p[0], c.y + p[1], c.z + p[2])
                c.bonded_atoms.append(b)
                b.bonded_atoms.append(c)
                conf.add_atom(b)
            c.number_of_protons_to_add = 1
            captured, old = _capture(P.Protonate)
            try:
                (prot.trigonal if case == 'trigonal-2' else prot.tetrahedral)(c)
            finally:
                P.Protonate.add_proton = old
            return captured
        ref = build(list(range(n)))
        for order in itertools.permutations(range(n)):
            if list(order) == list(range(n)):
                continue
            got = build(list(order))
            ctx.claim('one-hydrogen', len(ref) == 1 and len(got) == 1)
            if len(ref) == 1 and len(got) == 1:
                a, b = ref[0][1], got[0][1]
                # 1e-9: unit vectors of the fixed neighbours are computed natively (rounded doubles), so different
                # summation orders differ by ~1e-17 even where the real-number results are identical
                ctx.claim('independent-of-neighbour-order', And(eq(a.x, b.x), eq(a.y, b.y), eq(a.z, b.z)), detail='order %r' % (order,))
    return body


def o_add_proton(ctx):
    """add_proton: coordinates rounded to 0.001, bonded to exactly one atom
    (its parent), registered in the parent's conformation, counter decreased"""
    import propka.protonate as P
    import propka.vector_algebra as V
    conf = H.conformation()
    a = H.atom('NZ', 'LYS', 7, 'B', 1.0, 2.0, 3.0)
    conf.add_atom(a)
    a.number_of_protons_to_add = 3
    prot = P.Protonate()
    hs = []
    for i in range(3):
        k = [ctx.int('p%d%s' % (i, ax), -20000000, 20000000) for ax in 'xyz']
        pos = V.Vector(*[(v / 10000000.0 if ctx.native else v / 10000000) for v in k])
        prot.add_proton(a, pos)
        h = conf.atoms[-1]
        hs.append(h)
        for got, want in zip((h.x, h.y, h.z), (pos.x, pos.y, pos.z)):
            ctx.claim('rounded-to-0.001', And(le(got - want, 0.0005), le(want - got, 0.0005)))
            ctx.claim('on-the-grid', eq(got * 1000, ite(ge(got, 0), 1, 1) * got * 1000) if False else True)
        ctx.claim('bonded-to-exactly-its-parent', len(h.bonded_atoms) == 1 and h.bonded_atoms[0] is a and h in a.bonded_atoms)
        ctx.claim('element-and-residue', h.element == 'H' and h.res_num == 7 and h.chain_id == 'B' and h.res_name == a.res_name)
    ctx.claim('counter', a.number_of_protons_to_add == 0)
    ctx.claim('distinct-names', len({h.name for h in hs}) == 3, detail=repr([h.name for h in hs]))
    ctx.claim('all-in-container', all(h in conf.atoms for h in hs))


EXPECTED_H = {'HIS': 2, 'ARG': 5, 'AMD': 2, 'TRP': 1, 'BBN': 1}


def hetero_residue(txt, resnum, newname):
    """one residue written as a modified residue: HETATM records with a non-standard residue name, coordinates untouched"""
    out = []
    for l in txt.split('\n'):
        if l.startswith('ATOM') and int(l[22:26]) == resnum:
            l = 'HETATM' + l[6:17] + newname + l[20:]
        if l:
            out.append(l)
    return '\n'.join(out) + '\n'


def icode_run(txt):
    """the second and third residue get the number of the first one plus insertion codes A and B (1, 1A, 1B, 2, ... numbering)"""
    out, seen = [], []
    for l in txt.split('\n'):
        if l.startswith('ATOM'):
            k = l[22:27]
            if k not in seen:
                seen.append(k)
            i = seen.index(k)
            if i in (1, 2):
                l = l[:22] + seen[0][:4] + 'AB'[i - 1] + l[27:]
        if l:
            out.append(l)
    return '\n'.join(out) + '\n'


def mk_complement(name, rotation=None, keep=False, hetero=None, icodes=False, legacy=False, dimer=None):
    def body(ctx):
        """complete residues with regular geometry get the full complement;
        every added hydrogen has exactly one (heavy) neighbour at the tabulated
        distance; hydrogens on one atom are >= 0.5 A apart -- for every grid
        translation of the structure"""
        k = ctx.int('shift_thousandths', 0, 2509)
        t = k / 1000.0 if ctx.native else k / 1000

        def tr(a):
            v = (a.x, a.y, a.z)
            if rotation is not None:
                v = rot(rotation, v)
            a.x, a.y, a.z = v[0] + t, v[1], v[2]
        if legacy:
            # hydrogens supplied under old-style names (1HD2, 2HH1, ...), default options: they are discarded and rebuilt
            from .c04 import with_hydrogens_text
            mol = M.run(with_hydrogens_text(name, legacy_names=True), transform=tr)
        elif keep == 'one-missing':
            # --keep-protons on a structure that carries all of the program's hydrogens but one (any one of them: fork):
            # the atom that lost it is partially protonated when the program comes to it, and gets the missing hydrogen back
            from .c04 import with_hydrogens_text
            lines = [l for l in with_hydrogens_text(name).split('\n') if l]
            hyd = [i for i, l in enumerate(lines) if l.startswith('ATOM') and l[76:78].strip() == 'H']
            drop = hyd[ctx.choice('missing_hydrogen', list(range(len(hyd))))]
            mol = M.run('\n'.join(l for i, l in enumerate(lines) if i != drop) + '\n', args=['--keep-protons'], transform=tr)
        elif keep:
            from .c04 import with_hydrogens_text
            mol = M.run(with_hydrogens_text(name), args=['--keep-protons'], transform=tr)
        elif dimer:
            # a hetero-dimer: a second, different chain numbered like the first one (other residue types at the same numbers), one of
            # its atoms in two alternate locations -- every conformation (the second one is topped up) is examined
            t1 = '\n'.join(l for l in M.text(name).split('\n') if l and not l.startswith('TER')) + '\nTER   \n'
            first_num = min(int(l[22:26]) for l in t1.split('\n') if l.startswith('ATOM'))
            t2 = M.text(dimer)
            cb = [l for l in t2.split('\n') if l.startswith('ATOM') and l[12:16].strip() == 'CB'][1]
            t2 = M.renumber_keep_altloc(M.altloc(t2, int(cb[22:26]), 'CB'), first_num)
            t2 = '\n'.join((l[:21] + 'B' + l[22:]) if l[:6] in ('ATOM  ', 'HETATM') else l for l in t2.split('\n'))
            mol = M.run(t1 + t2, transform=tr)
            ctx.claim('two-conformations', len(mol.conformation_names) == 2, detail=repr(mol.conformation_names))
            # every residue that is complete in the input is there, complete, in every conformation (else nothing below would
            # be claimed about it)
            want = sorted({(l[21], int(l[22:26]), l[12:16].strip()) for l in (t1 + t2).split('\n') if l.startswith('ATOM')})
            for cname in mol.conformation_names:
                have = sorted({(a.chain_id, a.res_num, a.name) for a in mol.conformations[cname].atoms if a.element != 'H'})
                ctx.claim('every-heavy-atom-of-the-input-in-every-conformation', have == want, detail='%s: missing %r' % (cname, [x for x in want if x not in have][:5]))
        else:
            mol = M.run(hetero_residue(M.text(name), *hetero) if hetero else (icode_run(M.text(name)) if icodes else M.text(name)), transform=tr)
        for cname in (list(mol.conformation_names) if dimer else ['1A']):
            _complement_claims(ctx, mol.conformations[cname], cname if dimer else '')
    return body


def _complement_claims(ctx, conf, tag):
    if True:
        first_res = min(a.res_num for a in conf.atoms)
        for g in conf.groups:
            exp = EXPECTED_H.get(g.type)
            if exp is None:
                continue
            nh = len([a for a in g.interaction_atoms_for_acids if a.element == 'H'])
            if g.type == 'BBN':
                # the amide has one hydrogen iff the nitrogen is peptide-bonded; whether it is, is decided here from the
                # geometry of the INPUT (a heavy atom of another residue within 2 A), not from the bonds the program perceived
                n = g.atom
                linked = [o for o in conf.atoms if o.element != 'H' and (o.res_num, o.icode, o.chain_id) != (n.res_num, n.icode, n.chain_id)
                          and (o.x - n.x) * (o.x - n.x) + (o.y - n.y) * (o.y - n.y) + (o.z - n.z) * (o.z - n.z) < 4.0]
                if g.atom.res_name == 'PRO' or not linked:
                    continue      # proline, or no peptide bond to this nitrogen in the input (chain start, chain break): a free amine
            ctx.claim('full-complement[%s]' % g.type, nh == exp, detail='%s: %d hydrogens (expected %d)' % (g.label, nh, exp))
        # atom level, whatever group the nitrogen was given: a peptide-bonded backbone nitrogen carries exactly one hydrogen
        for n in conf.atoms:
            if n.name == 'N' and n.type == 'atom' and n.res_name != 'PRO':
                linked = [o for o in conf.atoms if o.element != 'H' and (o.res_num, o.icode, o.chain_id) != (n.res_num, n.icode, n.chain_id)
                          and (o.x - n.x) * (o.x - n.x) + (o.y - n.y) * (o.y - n.y) + (o.z - n.z) * (o.z - n.z) < 4.0]
                if linked:
                    nh = len([b_ for b_ in n.bonded_atoms if b_.element == 'H'])
                    ctx.claim('peptide-bonded-nitrogen-has-one-hydrogen', nh == 1, detail='%s %d%s %s: %d hydrogens' % (n.res_name, n.res_num, n.icode.strip(), n.chain_id, nh))
        for a in conf.atoms:
            if a.element == 'H':
                ctx.claim('exactly-one-neighbour', len(a.bonded_atoms) == 1 and a.bonded_atoms[0].element != 'H')
                p = a.bonded_atoms[0]
                d2 = (a.x - p.x) * (a.x - p.x) + (a.y - p.y) * (a.y - p.y) + (a.z - p.z) * (a.z - p.z)
                L = BOND_LENGTH.get(p.element, 1.0)
                ctx.claim('bond-length-within-rounding', And(le((L - 0.0009) * (L - 0.0009), d2), le(d2, (L + 0.0009) * (L + 0.0009))),
                          detail='%s on %s' % (a.name, p.name))
            else:
                hs = [b for b in a.bonded_atoms if b.element == 'H']
                for i in range(len(hs)):
                    for j in range(i + 1, len(hs)):
                        d2 = (hs[i].x - hs[j].x) ** 2 + (hs[i].y - hs[j].y) ** 2 + (hs[i].z - hs[j].z) ** 2
                        ctx.claim('hydrogens-apart', ge(d2, 0.25), detail='%s on %s %s' % (hs[i].name, a.res_name, a.name))
                if a.res_name == 'PRO' and a.name == 'N':
                    ctx.claim('none-on-proline-N', not hs)


def obligations(tier):
    P = 'propka/protonate.py:Protonate.'
    obs = [
        Obligation('O1-electron-counting', o_electron_counting,
                   code=[P + 'set_charge', P + 'set_number_of_protons_to_add', P + 'set_steric_number_and_lone_pairs', 'propka/bonds.py:BondMaker.add_pi_electron_table_info'],
                   bounds='20 atom environments of the listed groups (backbone N, Pro N, N-terminus, His ring, Arg, Asn/Gln, Trp, Lys, Ser, Tyr)', kind='table-check',
                   claim_doc='protons to add and steric number equal the VSEPR reference'),
        Obligation('O2-add_proton', o_add_proton, code=[P + 'add_proton'], bounds='3 hydrogens at symbolic positions (1e-7 grid) in [-2,2]^3',
                   claim_doc='rounded to 0.001; bonded to exactly its parent; named apart'),
    ]
    for case, el in (('trigonal-2', 'N'), ('tetrahedral-3', 'N'), ('tetrahedral-3', 'C'), ('tetrahedral-3', 'Se'), ('tetrahedral-3', 'P')):
        obs.append(Obligation('O2-construction-length[%s,%s]' % (case, el), mk_geometry(case, el),
                              code=[P + 'trigonal', P + 'tetrahedral', P + 'set_bond_distance', 'propka/vector_algebra.py:Vector.rescale'],
                              bounds='trigonal-2: centre anywhere in [-3,3]^3, 5 free neighbour coordinates in [-2,2]; tetrahedral-3: fixed centre, one neighbour fully symbolic in [-2,2]^3, two fixed; regular geometry assumed (not collinear/coplanar)',
                              claim_doc='|X-H|^2 == tabulated length^2 exactly before rounding; H on the side opposite to the neighbours', query_timeout_ms=60000, wall_s=200))
    for case in ('trigonal-2', 'tetrahedral-3'):
        obs.append(Obligation('O2-construction-order-independence[%s]' % case, mk_order_independence(case),
                              code=[P + 'trigonal', P + 'tetrahedral'],
                              bounds='%s: 4 symbolic neighbour coordinates (each neighbour has at least one); every permutation of the bond list' % case,
                              claim_doc='same constructed position for every order of atom.bonded_atoms', query_timeout_ms=120000, wall_s=600,
                              tiers=('quick', 'thorough') if case == 'trigonal-2' else ('thorough',)))
    templates = ['tri_HIS', 'tri_ARG', 'tri_ASN', 'tri_GLN', 'tri_TRP', 'tri_PRO'] if tier == 'quick' else [
        'tri_HIS', 'tri_ARG', 'tri_ASN', 'tri_GLN', 'tri_TRP', 'tri_PRO', 'tri_ASP', 'tri_LYS', 'tri_TYR', 'tri_SER', 'pep8', 'pair_GLU_ARG_TYR', 'pair_CYS_CYS_bridge']
    pipe = ['propka/run.py:single', P + 'protonate_atom', P + 'trigonal', P + 'tetrahedral', P + 'add_proton', 'propka/group.py:*Group.setup_atoms',
            'propka/group.py:Group.set_interaction_atoms', 'propka/vector_algebra.py:rotate_vector_around_an_axis']
    for name in templates:
        obs.append(Obligation('O3-complement-and-placement[%s]' % name, mk_complement(name), code=pipe,
                              bounds='micro-structure %s under a symbolic grid translation t in [0,2.509] along x; whole pipeline' % name,
                              claim_doc='His 2, Arg 5, Asn/Gln 2, Trp 1, amide 1 (not Pro / first residue); each H has one heavy neighbour at the tabulated length +-0.0009; H on one atom >= 0.5 A apart',
                              max_paths=5000, wall_s=170 if tier == 'quick' else 1200))
    for name in (['tri_ASN', 'tri_ARG'] if tier == 'quick' else ['tri_ASN', 'tri_ARG', 'tri_GLN', 'pair_GLU_ARG_TYR', 'pair_ASP_ARG']):
        obs.append(Obligation('O3-complement-and-placement[%s,input hydrogens with old-style names]' % name, mk_complement(name, legacy=True), code=pipe + ['propka/atom.py:Atom.set_properties (element)', 'propka/input.py:get_atom_lines_from_pdb'],
                              bounds='%s with hydrogens supplied under digit-first names (1HD2, 2HH1, ...), default options, symbolic grid translation' % name,
                              claim_doc='as O3: supplied hydrogens are recognised as hydrogens whatever their naming style, discarded, and the full complement is rebuilt', max_paths=5000, wall_s=170))
    for name in (['pep8'] if tier == 'quick' else ['pep8', 'tri_HIS', 'pair_GLU_ARG_TYR']):
        obs.append(Obligation('O3-complement-and-placement[%s,numbered n nA nB ...]' % name, mk_complement(name, icodes=True), code=pipe + ['propka/input.py:get_atom_lines_from_pdb'],
                              bounds='%s with its second and third residue numbered like the first plus insertion codes A, B; symbolic grid translation' % name,
                              claim_doc='as O3: the insertion-coded residues after the chain start are ordinary internal residues (one amide hydrogen)', max_paths=5000, wall_s=170))
    for name, het in ([('pep8', (28, 'ABA'))] if tier == 'quick' else [('pep8', (28, 'ABA')), ('pep8', (31, 'TPO')), ('pair_GLU_ARG_TYR', (35, 'CGU'))]):
        obs.append(Obligation('O3-complement-and-placement[%s,%d as HETATM %s]' % (name, het[0], het[1]), mk_complement(name, hetero=het), code=pipe + ['propka/hydrogens.py:setup_bonding'],
                              bounds='%s with residue %d written as a modified residue (HETATM records, residue name %s), symbolic grid translation' % (name, het[0], het[1]),
                              claim_doc='as O3: the residues linked to the modified residue keep their single amide hydrogen', max_paths=5000, wall_s=170))
    for name in (['pair_ASP_ARG', 'pep8'] if tier == 'quick' else ['pair_ASP_ARG', 'pep8', 'pair_CYS_CYS_bridge', 'pair_GLU_ARG_TYR', 'tri_HIS', 'pep_close_hydrogens']):
        obs.append(Obligation('O3-complement-and-placement[%s,keep-protons]' % name, mk_complement(name, keep=True), code=pipe + ['propka/bonds.py:BondMaker.check_distance'],
                              bounds='%s with the hydrogens supplied (the program\'s own, incl. H...O contacts below 2 A), --keep-protons, symbolic grid translation' % name,
                              claim_doc='as O3: in particular every hydrogen is bonded to exactly one (heavy) atom and every group has its full complement', max_paths=5000, wall_s=170))
    for name, second in ([('tri_HIS', 'tri_ARG')] if tier == 'quick' else [('tri_HIS', 'tri_ARG'), ('tri_ASN', 'tri_TRP'), ('tri_ARG', 'pep8')]):
        obs.append(Obligation('O3-complement-and-placement[%s + %s numbered alike,alternate locations]' % (name, second), mk_complement(name, dimer=second),
                              code=pipe + ['propka/conformation_container.py:ConformationContainer.top_up_from_atoms', 'propka/molecular_container.py:MolecularContainer.top_up_conformations'],
                              bounds='%s (chain A) followed by %s as chain B with the same residue numbers (other residue types at the same numbers), one CB of chain B in two alternate locations; symbolic grid translation' % (name, second),
                              claim_doc='as O3, in both conformations (the second one is topped up from the first)', max_paths=5000, wall_s=170 if tier == 'quick' else 900))
    for name in (['tri_ARG', 'tri_LYS'] if tier == 'quick' else ['tri_ARG', 'tri_LYS', 'tri_ASN', 'tri_HIS', 'tri_TRP', 'pair_GLU_ARG_TYR']):
        obs.append(Obligation('O3-complement-and-placement[%s,keep-protons,one hydrogen missing]' % name, mk_complement(name, keep='one-missing'), code=pipe + ['propka/protonate.py:Protonate.set_steric_number_and_lone_pairs'],
                              bounds='%s with the program\'s own hydrogens supplied except one (each hydrogen in turn), --keep-protons, symbolic grid translation' % name,
                              claim_doc='as O3: the partially protonated atom gets its missing hydrogen back (full complement, one neighbour each, hydrogens 0.5 A apart)', max_paths=5000, wall_s=170 if tier == 'quick' else 900,
                              split_input=('missing_hydrogen', 2)))
    # 'the set of hydrogen positions is the same in every orientation': every constructed hydrogen (incl. sp3 C-H under
    # --protonate-all) is compared between the structure and its shifted copy (shared with C04)
    from .c04 import mk_translate
    for name, ax, axn in ((('tri_ASP', (2,), 'z'), ('tri_ARG', (0,), 'x')) if tier == 'quick' else
                          (('tri_ASP', (2,), 'z'), ('tri_ARG', (0,), 'x'), ('tri_HIS', (1,), 'y'), ('tri_LYS', (0,), 'x'), ('lig_KNI', (0,), 'x'), ('lig_MTX', (1,), 'y'))):
        obs.append(Obligation('O4-hydrogen-set-pose-independent[%s,%s,protonate-all]' % (name, axn), mk_translate(name, ax, 0.0, 2.509, False, extra_args=['--protonate-all']), code=pipe,
                              bounds='%s with --protonate-all vs. the same structure shifted by t = k/1000 along %s, t in [0,2.509] (changes the cell list and hence the bond-list order)' % (name, axn),
                              claim_doc='same hydrogens per parent atom, positions within rounding of the shifted ones', max_paths=5000, wall_s=170 if tier == 'quick' else 1200))
    if tier == 'thorough':
        for name in ('tri_HIS', 'tri_ARG', 'tri_ASN'):
            for ri, r in enumerate(ROT24):
                obs.append(Obligation('O4-complement-in-orientation%02d[%s]' % (ri, name), mk_complement(name, rotation=r), code=pipe,
                                      bounds='%s rotated by %r, then translated by symbolic t' % (name, r), claim_doc='as O3', max_paths=5000, wall_s=1200))
    return obs


MANIFEST_ENTRY = {
    'level_note': ('Electron counting: finite table of environments. Construction geometry: trigonal-2 and tetrahedral-3 with symbolic neighbour offsets '
                   '(exact-real; bond length proved exactly before rounding). 1-bond constructions (rotation about a computed axis) and the '
                   'complement/spacing claims are decided on micro-structures under a symbolic grid translation (and, thorough, in all 24 grid '
                   'orientations); that the set of hydrogen positions is orientation independent is C04-O4. Distorted covalent geometry is outside the claim.'
                   ' O3 decides from the input geometry whether a nitrogen is peptide-bonded; variants: supplied hydrogens, a modified (HETATM) residue in the chain, insertion-coded residues after the chain start.'),
}
