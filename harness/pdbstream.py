"""Symbolic PDB record streams for the obligations that run
input.get_atom_lines_from_pdb (C01, C07, C08, C13), and the executable
specification of record filtering / terminus tagging / conformation naming
taken from the property statements."""
from symx import And, Or, Not, Implies, eq, SStr, SBool
from symx.sstr import mk, as_els
from . import common as H

# record kinds: (tag, atom name, residue name, element)
KINDS = {
    'N':    ('ATOM  ', 'N', 'GLY', 'N'),
    'CA':   ('ATOM  ', 'CA', 'GLY', 'C'),
    'OXT':  ('ATOM  ', 'OXT', 'GLY', 'O'),
    "O''":  ('ATOM  ', "O''", 'GLY', 'O'),
    'H':    ('ATOM  ', 'H', 'GLY', 'H'),
    'HETN': ('HETATM', 'N', 'LIG', 'N'),
    'HETH': ('HETATM', 'H', 'LIG', 'H'),
    'HOH':  ('HETATM', 'O', 'HOH', 'O'),
    'WATN': ('ATOM  ', 'N', 'HOH', 'N'),
    'TER':  ('TER   ', None, None, None),
    'MODEL': ('MODEL ', None, None, None),
    'REMARK': ('REMARK', None, None, None),
}

DIGITS = '012'
ICODES = ' A'
CHAINS = 'AB '
ALTLOCS = ' AB12'


class Rec:
    """one record: concrete kind, symbolic residue-number digit / insertion
    code / chain / alt-loc characters"""

    def __init__(self, idx, kind, digit, icode, chain, altloc, model=None):
        self.idx = idx
        self.kind = kind
        self.tag, self.name, self.res_name, self.element = KINDS[kind]
        self.digit, self.icode, self.chain, self.altloc = digit, icode, chain, altloc
        self.model = model
        self.is_atom = self.tag in ('ATOM  ', 'HETATM')

    def line(self):
        if self.tag == 'MODEL ':
            return 'MODEL     %4d\n' % self.model
        if self.tag == 'TER   ':
            return 'TER   \n'
        if self.tag == 'REMARK':
            return 'REMARK 300 nothing to see here\n'
        base = H.pdb_line(100 + self.idx, self.name, self.res_name, 'A', 10, 1.0 + self.idx, 2.0, 3.0,
                          rec=self.tag.strip(), element=self.element)
        els = list(as_els(base))
        els[16] = as_els(self.altloc)[0]
        els[21] = as_els(self.chain)[0]
        els[25] = as_els(self.digit)[0]
        els[26] = as_els(self.icode)[0]
        return mk(els)


class Stream:
    def __init__(self, lines):
        self.lines = lines

    def seek(self, n):
        pass

    def readlines(self):
        return list(self.lines)


def sym_char(ctx, name, alphabet):
    s = ctx.string(name, 1, alphabet)
    return s


def make_records(ctx, kinds, altloc=True, models=(1, 2)):
    recs = []
    for i, k in enumerate(kinds):
        if KINDS[k][0] in ('ATOM  ', 'HETATM'):
            recs.append(Rec(i, k, sym_char(ctx, 'd%d' % i, DIGITS), sym_char(ctx, 'i%d' % i, ICODES),
                            sym_char(ctx, 'c%d' % i, CHAINS),
                            sym_char(ctx, 'a%d' % i, ALTLOCS) if altloc else ' '))
        elif k == 'MODEL':
            recs.append(Rec(i, k, None, None, None, None, model=ctx.choice('model%d' % i, list(models))))
        else:
            recs.append(Rec(i, k, None, None, None, None))
    return recs


def run_code(recs, ignore_residues=('HOH',), keep_protons=False, chains=None):
    """the real generator on the record stream -> list of (conf, numb, terminal, atom)"""
    import propka.input as I
    out = []
    for conf, atom in I.get_atom_lines_from_pdb(Stream([r.line() for r in recs]), ignore_residues=ignore_residues,
                                                keep_protons=keep_protons, chains=chains):
        out.append((conf, atom.numb, atom.terminal, atom))
    return out


def same_res(a, b):
    """full residue identity: chain, number, insertion code"""
    return bool(And(a.digit == b.digit, a.icode == b.icode, a.chain == b.chain))


def conf_name(r, model):
    a = r.altloc
    if bool(a == ' '):
        ch = 'A'
    elif bool(a == '1'):
        ch = 'A'
    elif bool(a == '2'):
        ch = 'B'
    else:
        ch = a
    return '%d' % model + ch


def run_spec(recs, ignore_residues=('HOH',), keep_protons=False, chains=None):
    """executable specification (from the statements of C01 / C07 / C08 / C13):
      * only ATOM/HETATM records of non-ignored residues and selected chains count;
      * a chain starts at the beginning, at a MODEL record, after a TER record
        and after a residue carrying a terminal oxygen (OXT / O'');
      * the N atoms (ATOM records) of the first residue of a chain are N+,
        every OXT / O'' (ATOM record) is C-; nothing else is tagged;
      * hydrogens are not emitted unless keep_protons;
      * conformation = model number + alt-loc letter (blank = A, digit d = d-th letter).
    -> list of (conf, numb, terminal)"""
    out = []
    model = 1
    want_start = True         # next counted ATOM residue starts a chain
    first = None              # the record that opened the current first residue
    last_atom = None          # last counted ATOM record (residue contiguity)
    oxt_res = None            # residue that carried a terminal oxygen
    for r in recs:
        if r.tag == 'MODEL ':
            model = r.model
            want_start, first, oxt_res = True, None, None
            continue
        if r.tag == 'TER   ':
            want_start, first, oxt_res = True, None, None
            continue
        if not r.is_atom:
            continue
        if r.res_name in ignore_residues:
            continue
        if chains is not None and not bool(_in_chars(r.chain, chains)):
            continue
        terminal = None
        if r.tag == 'ATOM  ':
            if want_start and not (oxt_res is not None and same_res(r, oxt_res)):
                first = r
                want_start = False
                oxt_res = None
            elif first is not None and not same_res(r, first):
                first = None          # left the first residue
            if first is not None and r.name == 'N':
                terminal = 'N+'
            if r.name in ('OXT', "O''"):
                terminal = 'C-'
                want_start, first, oxt_res = True, None, r
        if r.element == 'H' and not keep_protons:
            continue
        out.append((conf_name(r, model), 100 + r.idx, terminal))
    return out


def _in_chars(c, chars):
    return Or(*[c == x for x in chars]) if len(chars) > 1 else (c == chars[0])


def compare(ctx, tag, got, exp):
    """claims: same emitted records in the same order with the same terminal
    tag and conformation name"""
    ctx.claim(tag + ':same-records-emitted', [g[1] for g in got] == [e[1] for e in exp],
              detail='code %r spec %r' % ([(g[1], g[2]) for g in got], [(e[1], e[2]) for e in exp]))
    if [g[1] for g in got] != [e[1] for e in exp]:
        return
    for g, e in zip(got, exp):
        ctx.claim(tag + ':terminal-tag', g[2] == e[2], detail='record %d: code %r spec %r' % (g[1], g[2], e[2]))
        ctx.claim(tag + ':conformation-name', g[0] == e[0] if (isinstance(g[0], str) and isinstance(e[0], str)) else (g[0] == e[0]),
                  detail='record %d: code %r spec %r' % (g[1], g[0], e[0]))


def identity_mismatch(env):
    """known-finding signature: some two ATOM/HETATM records share the
    residue-number field but differ in chain or insertion code, or a residue
    number re-appears after a different one (non-contiguous reuse).  These are
    exactly the files on which "same residue-number columns" (what the code
    compares) and "same residue" (what the statement means) disagree."""
    idx = sorted(int(n[1:-2]) for n in env if n.startswith('d') and n.endswith('_0') and n[1:-2].isdigit())
    alts = []
    for a in range(len(idx)):
        for b in range(a + 1, len(idx)):
            i, j = idx[a], idx[b]
            di, dj = env['d%d_0' % i], env['d%d_0' % j]
            alts.append(And(di == dj, Or(env['c%d_0' % i] != env['c%d_0' % j], env['i%d_0' % i] != env['i%d_0' % j])))
            for m in idx[a + 1:b]:
                alts.append(And(di == dj, di != env['d%d_0' % m]))
    if not alts:
        return None
    return Or(*alts)
