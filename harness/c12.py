"""C12 -- incomplete structures degrade gracefully."""
import io
import json
import os

from symx import And, Or, Not, Implies, eq
from symx.runner import Obligation
from . import common as H
from . import micro as M

PROPERTY = 'C12'
META = {'assumptions': [
    'the quantifier over atom subsets is explored by forks on presence choices: bounded exhaustive enumeration through the explorer '
    '(every subset inside the stated neighbourhood is run through the real pipeline)']}

HELPER = {'ASN': 'CG', 'GLN': 'CD', 'TRP': 'NE1', 'SER': 'OG', 'THR': 'OG1'}   # anchors of non-titratable helper groups
DEFINING = {'ASP': 'CG', 'GLU': 'CD', 'HIS': 'CG', 'CYS': 'SG', 'TYR': 'OH', 'LYS': 'NZ', 'ARG': 'CZ'}


def parse(name):
    """[(resnum, resname, [atom names])] of a fixture"""
    out = []
    for ln in M.text(name).split('\n'):
        if ln.startswith('ATOM'):
            rn, res, an = int(ln[22:26]), ln[17:20], ln[12:16].strip()
            if not out or out[-1][0] != rn:
                out.append((rn, res, []))
            out[-1][2].append(an)
    return out


def neighbourhood(res, atoms, depth):
    """atoms of the residue within `depth` bonds of the defining atom (all
    atoms when the residue has no ionizable side chain)"""
    bonds = json.load(open(os.path.join(H.REPO, 'propka', 'protein_bonds.json')))
    adj = {a: set() for a in atoms}
    for a, nb in bonds.get(res, {}).items():
        for b in nb:
            if a in adj and b in adj:
                adj[a].add(b)
                adj[b].add(a)
    for a, b in (('N', 'CA'), ('CA', 'C'), ('C', 'O'), ('CA', 'CB')):
        if a in adj and b in adj:
            adj[a].add(b)
            adj[b].add(a)
    start = DEFINING.get(res) or HELPER.get(res)
    if start is None or start not in adj:
        # no ionizable side chain: backbone and terminal oxygen
        return [a for a in atoms if a in ('N', 'CA', 'C', 'O', 'OXT', 'CB')]
    seen = {start}
    frontier = {start}
    for _ in range(depth):
        frontier = {b for a in frontier for b in adj[a]} - seen
        seen |= frontier
    return [a for a in atoms if a in seen]


def expected_sites(residues, removed):
    """labels of the ionizable sites whose defining atom is still present"""
    exp = []
    first = residues[0]
    if (first[0], 'N') not in removed:
        exp.append('N+ %4d A' % first[0])
    for rn, res, atoms in residues:
        d = DEFINING.get(res)
        if d and d in atoms and (rn, d) not in removed:
            exp.append('%s%4d A' % (res, rn))
        if 'OXT' in atoms and (rn, 'OXT') not in removed:
            exp.append('C- %4d A' % rn)
    return exp


NTERM_COUPLED = ('ASP', 'CYS', 'HIS')   # defining atom within 3 bonds of the terminal N


def site_claim_name(residues, lab, removed=()):
    """claims about the side chain of an N-terminal Asp/Cys/His carry their own
    name: that site is the subject of a recorded finding (known_findings.json)"""
    first = residues[0]
    if lab[:3] in NTERM_COUPLED and int(lab[3:7]) == first[0] and (first[0], 'N') not in removed:
        return 'site-reported:sidechain-of-N-terminal-ASP/CYS/HIS'
    return 'site-with-defining-atom-reported'


def mk_subsets(name, which, depth, also_neighbours=False):
    def body(ctx):
        residues = parse(name)
        rn, res, atoms = residues[which]
        cand = neighbourhood(res, atoms, depth)
        removed = set()
        for a in cand:
            if ctx.choice('remove_%s' % a, [False, True]):
                removed.add((rn, a))
        if also_neighbours:
            for j in (0, 2):
                if j == which:
                    continue
                for a in ('N', 'C', 'O', 'CA'):
                    if a in residues[j][2] and ctx.choice('remove_%d_%s' % (residues[j][0], a), [False, True]):
                        removed.add((residues[j][0], a))
        try:
            mol = M.run(M.text(name), keep=lambda a: (a.res_num, a.name) not in removed, write=False)
            import propka.output as O
            # the full .pka text must be producible as well
            txt = O.get_determinant_section(mol, 'AVR', mol.version.parameters) + O.get_summary_section(mol, 'AVR', mol.version.parameters)
            txt += O.get_folding_profile_section(mol, conformation='AVR', reference='neutral', window=mol.options.window)
            txt += O.get_charge_profile_section(mol, conformation='AVR')
        except Exception as e:  # noqa
            import traceback
            ctx.claim('no-unhandled-error', False, detail='removed %r: %s: %s\n%s' % (sorted(removed), type(e).__name__, e, traceback.format_exc()[-700:]))
            return
        ctx.claim('no-unhandled-error', True)
        rep = M.reported(mol)
        for lab in expected_sites(residues, removed):
            ctx.claim(site_claim_name(residues, lab, removed), rep.count(lab) == 1, detail='removed %r: %r reported %d times (reported: %r)' % (sorted(removed), lab, rep.count(lab), rep))
        for lab in rep:
            ctx.claim('nothing-else-reported', lab in expected_sites(residues, removed), detail='removed %r: unexpected %r' % (sorted(removed), lab))
        # the results as the API returns them (the averaged conformation): every site whose defining atom is present has its
        # group there with a pKa -- also the side chain of an N-terminal Asp/Cys/His, which the text sections leave out (finding F9)
        api = [g.label for g in mol.conformations['AVR'].groups if g.titratable or g.atom.cysteine_bridge]
        for lab in expected_sites(residues, removed):
            ctx.claim('site-in-the-averaged-conformation', api.count(lab) == 1, detail='removed %r: %r %d times among %r' % (sorted(removed), lab, api.count(lab), api))
    return body


def mk_ligand_subsets(name, pairs):
    """remove any one atom (any two atoms) of a ligand: the run completes and every output section is producible"""
    def body(ctx):
        names = [l[12:16].strip() for l in M.text(name).split('\n') if l.startswith('HETATM')]
        first = ctx.choice('removed_first', names)
        removed = {first}
        if pairs:
            second = ctx.choice('removed_second', names)
            ctx.assume(names.index(second) >= names.index(first))      # second == first: a single atom removed
            removed.add(second)
        try:
            mol = M.run(M.text(name), keep=lambda a: a.name not in removed, write=False)
            import propka.output as O
            txt = O.get_determinant_section(mol, 'AVR', mol.version.parameters) + O.get_summary_section(mol, 'AVR', mol.version.parameters)
            txt += O.get_folding_profile_section(mol, conformation='AVR', reference='neutral', window=mol.options.window)
            txt += O.get_charge_profile_section(mol, conformation='AVR')
        except Exception as e:  # noqa
            import traceback
            ctx.claim('no-unhandled-error', False, detail='removed %r: %s: %s\n%s' % (sorted(removed), type(e).__name__, e, traceback.format_exc()[-700:]))
            return
        ctx.claim('no-unhandled-error', True)
    return body


def o_whole_residues(ctx):
    """delete any subset of whole residues of the 8-residue peptide"""
    residues = parse('pep8')
    removed_res = set()
    for rn, res, atoms in residues:
        if ctx.choice('remove_residue_%d' % rn, [False, True]):
            removed_res.add(rn)
    ctx.assume(len(removed_res) < len(residues))
    try:
        mol = M.run(M.text('pep8'), keep=lambda a: a.res_num not in removed_res)
    except Exception as e:  # noqa
        import traceback
        ctx.claim('no-unhandled-error', False, detail='removed residues %r: %s: %s\n%s' % (sorted(removed_res), type(e).__name__, e, traceback.format_exc()[-600:]))
        return
    ctx.claim('no-unhandled-error', True)
    rep = M.reported(mol)
    left = [r for r in residues if r[0] not in removed_res]
    for rn, res, atoms in left:
        if res in DEFINING and DEFINING[res] in atoms:
            lab = '%s%4d A' % (res, rn)
            ctx.claim(site_claim_name(left, lab), rep.count(lab) == 1, detail='removed %r: %r reported %d times' % (sorted(removed_res), lab, rep.count(lab)))
            # ... and as the API returns the results: the group is in the averaged conformation (also the side chain of an
            # N-terminal Asp/Cys/His that the text sections leave out, finding F9)
            api = [g.label for g in mol.conformations['AVR'].groups if g.titratable or g.atom.cysteine_bridge]
            ctx.claim('site-in-the-averaged-conformation', api.count(lab) == 1, detail='removed %r: %r %d times among %r' % (sorted(removed_res), lab, api.count(lab), api))


def o_first_conformation_wiped(ctx):
    """a truncation may remove every atom of the first conformation (an empty first MODEL; no atom with a blank or A
    alternate-location tag): the remaining conformations are still a structure, the run completes and reports them"""
    import propka.output as O
    case = ctx.choice('case', ['empty-first-MODEL', 'only-hydrogens-in-first-MODEL', 'alt-locs-B-and-C-only', 'second-MODEL-empty'])
    t = M.text('pep8')
    if case == 'empty-first-MODEL':
        text = 'MODEL        1\nENDMDL\nMODEL        2\n' + t + 'ENDMDL\n'
    elif case == 'only-hydrogens-in-first-MODEL':
        text = 'MODEL        1\n' + H.pdb_line(1, 'H', 'GLY', 'A', 1, 0.0, 0.0, 0.0, element='H') + 'ENDMDL\nMODEL        2\n' + t + 'ENDMDL\n'
    elif case == 'second-MODEL-empty':
        text = 'MODEL        1\n' + t + 'ENDMDL\nMODEL        2\nENDMDL\n'
    else:
        out = []
        for l in t.split('\n'):
            if l.startswith('ATOM'):
                out.append(l[:16] + 'B' + l[17:])
                out.append(l[:16] + 'C' + l[17:30] + '%8.3f' % (float(l[30:38]) + 0.2) + l[38:])
            elif l:
                out.append(l)
        text = '\n'.join(out) + '\n'
    try:
        mol = M.run(text)
        txt = O.get_determinant_section(mol, 'AVR', mol.version.parameters) + O.get_summary_section(mol, 'AVR', mol.version.parameters)
    except Exception as e:  # noqa
        import traceback
        ctx.claim('no-unhandled-error', False, detail='%s: %s: %s\n%s' % (case, type(e).__name__, e, traceback.format_exc()[-600:]))
        return
    ctx.claim('no-unhandled-error', True)
    rep = M.reported(mol)
    for lab in ('ASP  29 A', 'ASP  30 A'):
        ctx.claim('site-with-defining-atom-reported', rep.count(lab) == 1, detail='%s: %r reported %d times' % (case, lab, rep.count(lab)))


def o_heavy_atoms_of_a_residue_removed(ctx):
    """with the hydrogens supplied (--keep-protons) a truncation can leave a residue with hydrogens only: the run
    completes (the pre-check only warns) and the other residues' sites are reported"""
    import propka.output as O
    from .c04 import with_hydrogens_text
    txt = with_hydrogens_text('pep8')
    nums = sorted({int(l[22:26]) for l in txt.split('\n') if l.startswith('ATOM')})
    victim = ctx.choice('residue_left_with_hydrogens_only', nums)
    text = '\n'.join(l for l in txt.split('\n') if l and not (l.startswith('ATOM') and int(l[22:26]) == victim and l[76:78].strip() != 'H')) + '\n'
    try:
        mol = M.run(text, args=['--keep-protons'])
        O.get_determinant_section(mol, 'AVR', mol.version.parameters) + O.get_summary_section(mol, 'AVR', mol.version.parameters)
    except Exception as e:  # noqa
        import traceback
        ctx.claim('no-unhandled-error', False, detail='residue %d: %s: %s\n%s' % (victim, type(e).__name__, e, traceback.format_exc()[-600:]))
        return
    ctx.claim('no-unhandled-error', True)
    rep = M.reported(mol)
    for lab, n in (('ASP  29 A', 29), ('ASP  30 A', 30)):
        if n != victim:
            ctx.claim('site-with-defining-atom-reported', rep.count(lab) == 1, detail='residue %d emptied: %r reported %d times' % (victim, lab, rep.count(lab)))


def o_rejections(ctx):
    """no atom records / unknown file type -> ValueError (nothing else)"""
    import propka.run as R
    case = ctx.choice('case', ['empty', 'remarks-only', 'only-ignored-water', 'hydrogens-only', 'wrong-extension', 'no-extension'])
    text = {'empty': '', 'remarks-only': 'REMARK nothing\nEND\n',
            'only-ignored-water': H.pdb_line(1, 'O', 'HOH', 'A', 1, 0.0, 0.0, 0.0, rec='HETATM'),
            'hydrogens-only': H.pdb_line(1, 'H', 'GLY', 'A', 1, 0.0, 0.0, 0.0, element='H'),
            'wrong-extension': M.text('tri_ASP'), 'no-extension': M.text('tri_ASP')}[case]
    fname = {'wrong-extension': 'x.xyz', 'no-extension': 'structure'}.get(case, 'x.pdb')
    try:
        R.single(fname, optargs=['--quiet'], stream=io.StringIO(text), write_pka=False)
        ctx.claim('rejected-with-ValueError', False, detail='%s accepted' % case)
    except ValueError:
        ctx.claim('rejected-with-ValueError', True)
    except Exception as e:  # noqa
        ctx.claim('rejected-with-ValueError', False, detail='%s: %s: %s' % (case, type(e).__name__, e))


def obligations(tier):
    code = ['propka/run.py:single', 'propka/input.py:read_molecule_file', 'propka/group.py:*Group.setup_atoms', 'propka/group.py:Group.set_interaction_atoms',
            'propka/energy.py:hydrogen_bond_interaction', 'propka/energy.py:check_coo_arg_exception', 'propka/determinants.py:set_backbone_determinants',
            'propka/lib.py:protein_precheck', 'propka/output.py:get_*_section']
    obs = []
    templates = ['tri_ASP', 'tri_GLU', 'tri_HIS', 'tri_CYS', 'tri_TYR', 'tri_LYS', 'tri_ARG', 'tri_ASN', 'tri_GLN', 'tri_TRP', 'tri_PRO', 'tri_SER']
    for name in templates:
        depth = 2 if tier == 'quick' else 99
        res = parse(name)[1]
        n = len(neighbourhood(res[1], res[2], depth))
        obs.append(Obligation('O1-atom-subsets[%s]' % name, mk_subsets(name, 1, depth),
                              code=code, bounds='tripeptide %s: every subset of %s of the middle residue (%d atoms, 2^%d structures) removed; whole real pipeline incl. all four output sections'
                                                % (name, 'the atoms within 2 bonds of the defining atom' if tier == 'quick' else 'all atoms', n, n),
                              claim_doc='no exception; every ionizable site whose defining atom remains is reported exactly once; nothing else is reported',
                              max_paths=200000, shards=4 if n <= 7 else 16, wall_s=170 if tier == 'quick' else 1500, stop_on_violation=False))
    for name, which in (('cterm_PHE', 2), ('pair_ASP_ARG', 1), ('pair_ASP_ARG', 4), ('pair_GLU_ARG_TYR', 1), ('pair_GLU_ARG_TYR', 4), ('pair_LYS_ASP', 4)):
        depth = 2 if tier == 'quick' else 99
        res = parse(name)[which]
        n = len(neighbourhood(res[1], res[2], depth))
        obs.append(Obligation('O1-atom-subsets[%s,%s%d]' % (name, res[1], res[0]), mk_subsets(name, which, depth), code=code,
                              bounds='%s (interacting side chains / C-terminus cut from 1HPX): every subset of %d atoms of %s %d removed' % (name, n, res[1], res[0]),
                              claim_doc='as O1', max_paths=200000, shards=4 if n <= 7 else 16, wall_s=170 if tier == 'quick' else 1500, stop_on_violation=False))
    if tier == 'thorough':
        for name in ('tri_ASP', 'tri_HIS', 'tri_ARG'):
            obs.append(Obligation('O1-atom-subsets+backbone-of-neighbours[%s]' % name, mk_subsets(name, 1, 1, also_neighbours=True), code=code,
                                  bounds='as O1 (depth 1) plus any subset of N, CA, C, O of both neighbouring residues', max_paths=400000, shards=16, wall_s=1500,
                                  claim_doc='as O1', stop_on_violation=False))
        for name in ('tri_ASP', 'tri_LYS', 'tri_HIS'):
            obs.append(Obligation('O1-atom-subsets-first-residue[%s]' % name, mk_subsets(name, 0, 99), code=code,
                                  bounds='every subset of the atoms of the FIRST residue (chain start) of %s' % name, max_paths=400000, shards=16, wall_s=1500,
                                  claim_doc='as O1', stop_on_violation=False))
    for name, pairs in ((('lig_MTX', True), ('lig_KNI', False)) if tier == 'quick' else (('lig_MTX', True), ('lig_KNI', True), ('lig_MTX_B', True))):
        n = len([l for l in M.text(name).split('\n') if l.startswith('HETATM')])
        obs.append(Obligation('O1-ligand-atom-subsets[%s,%s]' % (name, 'pairs' if pairs else 'single'), mk_ligand_subsets(name, pairs),
                              code=['propka/ligand.py:assign_sybyl_type', 'propka/ligand.py:is_ring_member', 'propka/ligand.py:are_atoms_planar', 'propka/group.py:is_ligand_group_by_groups',
                                    'propka/protonate.py:Protonate.protonate_atom', 'propka/run.py:single', 'propka/output.py:get_*_section'],
                              bounds='ligand %s (%d atoms): every %s removed (%d structures)' % (name, n, 'single atom and every pair of atoms' if pairs else 'single atom', n * (n + 1) // 2 if pairs else n),
                              claim_doc='no exception; all four output sections producible', max_paths=200000, split_input=('removed_first', 11 if pairs else 4), wall_s=170 if tier == 'quick' else 1500,
                              stop_on_violation=False))
    obs.append(Obligation('O2-whole-residues[pep8]', o_whole_residues, code=code, bounds='8-residue peptide: every proper subset of residues deleted (255 structures)',
                          claim_doc='no exception; remaining side-chain sites reported once', max_paths=100000, shards=8, stop_on_violation=False))
    obs.append(Obligation('O2-first-conformation-wiped', o_first_conformation_wiped, code=['propka/input.py:read_pdb', 'propka/molecular_container.py:MolecularContainer.average_of_conformations', 'propka/run.py:single'],
                          bounds='the 8-residue peptide as: MODEL 2 after an empty MODEL 1; after a MODEL 1 holding one hydrogen; MODEL 1 before an empty MODEL 2; alternate locations B and C only', kind='table-check',
                          claim_doc='no exception; the side-chain sites are reported', stop_on_violation=False))
    obs.append(Obligation('O2-residue-left-with-hydrogens-only[keep-protons]', o_heavy_atoms_of_a_residue_removed, code=['propka/lib.py:protein_precheck', 'propka/input.py:read_molecule_file', 'propka/run.py:single'],
                          bounds='the 8-residue peptide with its hydrogens supplied, --keep-protons, every heavy atom of one residue removed (8 structures)', kind='table-check',
                          claim_doc='no exception; the other side-chain sites are reported', stop_on_violation=False))
    obs.append(Obligation('O3-rejections', o_rejections, code=['propka/input.py:read_molecule_file', 'propka/input.py:read_pdb'],
                          bounds='6 inputs: empty, remarks only, only ignorable water, only hydrogens, wrong / missing extension', kind='table-check',
                          claim_doc='ValueError and nothing else', stop_on_violation=False))
    return obs


MANIFEST_ENTRY = {
    'level_note': ('The subsets are reached through forks on presence choices; each subset is a concrete run of the whole real pipeline, so this is bounded '
                   'exhaustive enumeration driven by the explorer (evidence says exhaustive per obligation), not a symbolic argument over all structures. '
                   'Quick: every subset of the atoms within two bonds of the defining atom of the middle residue of 12 tripeptides; thorough: every subset of '
                   'all atoms of the middle residue, backbone deletions in the neighbours, first-residue subsets, and every subset of residues of an 8-residue peptide.'),
}
