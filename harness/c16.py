"""C16 -- every contribution has the physically required sign and stays in
model bounds.  One obligation per rule; real Parameters from the shipped cfg;
numeric leaves symbolic (exact reals)."""
from symx import And, Or, Not, Implies, eq, le, ge, lt, ite
from symx.runner import Obligation
from . import common as H

PROPERTY = 'C16'
META = {'assumptions': [
    'hydrogen-bond / Coulomb values entering the pair rules are the non-negative results of '
    'hydrogen_bond_energy / coulomb_energy (proved in their own obligations) or the configured exception constants',
]}

COUL_MAX = 244.12 / (30 * 4.0)


def o_coulomb_energy(ctx):
    import propka.energy as E
    p = H.params()
    dist = ctx.real('dist', 0, 10000)
    w = ctx.real('weight', 0, 1)
    v = E.coulomb_energy(dist, w, p)
    ctx.claim('nonneg', ge(v, 0))
    ctx.claim('max', le(v, COUL_MAX))
    ctx.claim('zero-beyond-cutoff', Implies(ge(dist, p.coulomb_cutoff2), eq(v, 0)))
    # buried (weight 1) never weaker than exposed at the same distance
    v1 = E.coulomb_energy(dist, 1.0, p)
    ctx.claim('buried-dielectric-is-max', le(v, v1))


def o_hbond_energy(ctx):
    import propka.energy as E
    dist = ctx.real('dist', 0, 1000)
    dmax = ctx.real('dpka_max', -0.85, 0.85)
    c0 = ctx.real('c0', 0, 10)
    c1 = ctx.real('c1', 0, 10)
    ctx.assume(lt(c0, c1))
    fa = ctx.real('f_angle', -1, 1)
    v = E.hydrogen_bond_energy(dist, dmax, [c0, c1], fa)
    ctx.claim('nonneg', ge(v, 0))
    ctx.claim('max', le(v, 0.85))
    ctx.claim('zero-beyond-cutoff', Implies(lt(c1, dist), eq(v, 0)))
    v1 = E.hydrogen_bond_energy(dist, dmax, [c0, c1])
    ctx.claim('angle-only-weakens', le(v, v1))


def o_weights(ctx):
    import propka.energy as E
    p = H.params()
    n = ctx.int('num_volume', 0, 100000)
    w = E.calculate_weight(p, n)
    ctx.claim('weight-in-0-1', And(ge(w, 0), le(w, 1)))
    s = E.calculate_scale_factor(p, w)
    ctx.claim('scale-in-range', And(ge(s, p.desolvationSurfaceScalingFactor), le(s, 1)))
    n2 = ctx.int('num_volume2', 0, 100000)
    pw = E.calculate_pair_weight(p, n, n2)
    ctx.claim('pair-weight-in-0-1', And(ge(pw, 0), le(pw, 1)))
    ctx.claim('unburied-below-Nmin', Implies(le(n, p.Nmin), eq(w, 0)))
    ctx.claim('fully-buried-above-Nmax', Implies(ge(n, p.Nmax), eq(w, 1)))


def _desolv_world(ctx, k, elements):
    """a group on its own atom plus k environment atoms at symbolic positions"""
    import propka.group as G
    conf = H.conformation()
    ga = H.atom('CG', 'ASP', 10, 'A', 0.0, 0.0, 0.0)
    conf.add_atom(ga)
    grp = G.COOGroup(ga)
    grp.parameters = conf.parameters
    H.set_xyz(grp, 0.0, 0.0, 0.0)
    for i in range(k):
        el, nm, same = elements[i]
        x = ctx.real('x%d' % i, -30, 30)
        y = 0.5 * (i + 1)
        z = -0.25 * (i + 1)
        a = H.atom(nm, 'ALA', 10 if same else 11 + i, 'A', x, y, z, element=el)
        conf.add_atom(a)
    return conf, grp


def mk_desolvation(elements, sign):
    def body(ctx):
        import propka.energy as E
        conf, grp = _desolv_world(ctx, len(elements), elements)
        grp.charge = sign
        # the configurable allowance (0 in the shipped file) is a parameter like any other: a buried volume below it
        # gives no desolvation, never one of the wrong sign
        import copy
        p = copy.copy(conf.parameters)
        p.desolvationAllowance = ctx.real('desolvation_allowance', 0, 60)
        E.radial_volume_desolvation(p, grp)
        if sign < 0:
            ctx.claim('acid-never-lowered', ge(grp.energy_volume, 0))
        else:
            ctx.claim('base-never-raised', le(grp.energy_volume, 0))
        ctx.claim('buried-in-0-1', And(ge(grp.buried, 0), le(grp.buried, 1)))
        ctx.claim('num_volume-counts-at-most-others', And(ge(grp.num_volume, 0), le(grp.num_volume, len(elements))))
    return body


def o_desolvation_many(ctx):
    """sign/bounds with the buried count itself symbolic: the loop is run on 2
    atoms, then num_volume is replaced by a symbolic count before weighting."""
    import propka.energy as E
    p = H.params()
    q = ctx.choice('charge', [-1, 1])
    nv = ctx.int('num_volume', 0, 100000)
    vol = ctx.real('volume', 0, 1000)
    buried = E.calculate_weight(p, nv)
    scale = E.calculate_scale_factor(p, buried)
    vaa = ite(ge(vol - p.desolvationAllowance, 0.0), vol - p.desolvationAllowance, 0.0)
    ev = q * p.desolvationPrefactor * vaa * scale
    ctx.claim('sign', ge(ev * (-q), 0) if q else True)
    ctx.claim('buried', And(ge(buried, 0), le(buried, 1)))


def _two_groups(ctx, q1, q2, titr=(True, True)):
    import propka.group as G
    p = H.params()
    cls = {-1: (G.COOGroup, 'ASP', 'CG'), 1: (G.LYSGroup, 'LYS', 'NZ')}
    gs = []
    for i, q in enumerate((q1, q2)):
        c, rn, an = cls[q]
        a = H.atom(an, rn, 10 + i, 'A', 0.0, 0.0, 0.0)
        g = c(a)
        g.parameters = p
        g.charge = q
        g.titratable = titr[i]
        g.model_pka = ctx.real('model_pka%d' % i, 0, 14)
        g.num_volume = ctx.count('num_volume%d' % i, 0, 2000)
        gs.append(g)
    return gs


def sign_rule(ctx, tag, g, partner_q, dets, bound):
    """every determinant of g toward a partner of charge partner_q has the
    sign of -partner_q and magnitude <= bound"""
    for i, d in enumerate(dets):
        v = d.value if hasattr(d, 'value') else d[1]
        ctx.claim('%s:sign' % tag, le(v * partner_q, 0))
        ctx.claim('%s:magnitude' % tag, And(le(v, bound), ge(v, -bound)))


def o_coulomb_pairs(ctx):
    import propka.determinants as D
    q1 = ctx.choice('q1', [-1, 1])
    q2 = ctx.choice('q2', [-1, 1])
    g1, g2 = _two_groups(ctx, q1, q2)
    dist = ctx.real('dist', 0, 1000)
    v = H.version()
    D.add_coulomb_determinants(g1, g2, dist, v)
    c1, c2 = g1.determinants['coulomb'], g2.determinants['coulomb']
    sign_rule(ctx, 'g1', g1, q2, c1, COUL_MAX)
    sign_rule(ctx, 'g2', g2, q1, c2, COUL_MAX)
    for g in (g1, g2):
        ctx.claim('only-coulomb-list-touched', len(g.determinants['sidechain']) == 0 and len(g.determinants['backbone']) == 0)
    if q1 != q2:
        ctx.claim('acid-base-pair:both-or-none', len(c1) == len(c2))
        if c1 and c2:
            ctx.claim('acid-base-pair:equal-and-opposite', eq(c1[0].value, -c2[0].value))
            ctx.claim('acid-base-pair:nonzero-iff-in-range', Implies(lt(dist, 10.0), Not(eq(c1[0].value, 0))))
    else:
        ctx.claim('like-pair:exactly-one-shifted', len(c1) + len(c2) <= 1)
    ctx.claim('cutoff', Implies(lt(10.0, dist), len(c1) + len(c2) == 0))
    for d in c1:
        ctx.claim('partner-recorded', d.group is g2)
    for d in c2:
        ctx.claim('partner-recorded', d.group is g1)


def o_sidechain_pairs(ctx):
    """add_sidechain_determinants with the real rule and a symbolic non-negative
    hydrogen-bond value (stub of version.hydrogen_bond_interaction)."""
    import propka.determinants as D
    q1 = ctx.choice('q1', [-1, 1])
    q2 = ctx.choice('q2', [-1, 1])
    g1, g2 = _two_groups(ctx, q1, q2)
    h = ctx.real('hbond', 0, 3.6)
    v = H.version()
    v.hydrogen_bond_interaction_model = lambda a, b, ver: h
    D.add_sidechain_determinants(g1, g2, v)
    s1, s2 = g1.determinants['sidechain'], g2.determinants['sidechain']
    ctx.claim('symmetric-presence', len(s1) == len(s2) and len(s1) <= 1)
    if s1:
        ctx.claim('magnitude-is-hbond-value', And(Or(eq(s1[0].value, h), eq(s1[0].value, -h)),
                                                  Or(eq(s2[0].value, h), eq(s2[0].value, -h))))
        ctx.claim('partners', s1[0].group is g2 and s2[0].group is g1)
        if q1 == q2:
            ctx.claim('like-pair-opposite-shifts', eq(s1[0].value, -s2[0].value))
        else:
            # the acid is lowered, the base raised
            ctx.claim('ion-pair-stabilising', And(le(s1[0].value * q1, 0) if False else ge(s1[0].value * q1, 0),
                                                   ge(s2[0].value * q2, 0)))
    else:
        ctx.claim('none-only-if-zero', eq(h, 0))


class _StubVersion:
    pass


def o_iterative_pairs(ctx):
    import propka.iterative as I
    q1 = ctx.choice('q1', [-1, 1])
    q2 = ctx.choice('q2', [-1, 1])
    g1, g2 = _two_groups(ctx, q1, q2)
    g1.charge = float(q1)
    g2.charge = float(q2)
    it1, it2 = I.Iterative(g1), I.Iterative(g2)
    hb = ctx.real('hbond', 0, 3.6)
    cb = ctx.real('coulomb', 0, COUL_MAX)
    a0 = ctx.real('annih0', -10, 10)
    a1 = ctx.real('annih1', -10, 10)
    inter = [[g1, g2], [hb, cb], [a0, a1]]
    if q1 < 0 and q2 < 0:
        I.add_iterative_acid_pair(it1, it2, inter)
    elif q1 > 0 and q2 > 0:
        I.add_iterative_base_pair(it1, it2, inter)
    else:
        I.add_iterative_ion_pair(it1, it2, inter, H.version())
    for it, pq, tag in ((it1, q2, 'it1'), (it2, q1, 'it2')):
        for d in it.determinants['coulomb']:
            ctx.claim(tag + ':coulomb-sign', le(d[1] * pq, 0))
            ctx.claim(tag + ':coulomb-magnitude', Or(eq(d[1], cb), eq(d[1], -cb)))
        for d in it.determinants['sidechain']:
            ctx.claim(tag + ':sidechain-magnitude', Or(eq(d[1], hb), eq(d[1], -hb)))
        ctx.claim(tag + ':backbone-untouched', len(it.determinants['backbone']) == 0)
    if q1 != q2:
        c1, c2 = it1.determinants['coulomb'], it2.determinants['coulomb']
        ctx.claim('ion-pair:both-or-none', len(c1) == len(c2))
        if c1:
            ctx.claim('ion-pair:equal-and-opposite', eq(c1[0][1], -c2[0][1]))


def o_ion_determinants(ctx):
    import propka.determinants as D
    import propka.group as G
    p = H.params()
    conf = H.conformation()
    q = ctx.choice('q', [-1, 1])
    g, = _two_groups(ctx, q, q)[:1]
    conf.groups.append(g)
    # one representative ion name per distinct configured charge
    reps = {}
    for nm in sorted(p.ions.keys()):
        reps.setdefault(p.ions[nm], nm)
    ion = ctx.choice('ion', [reps[c] for c in sorted(reps)])
    ia = H.atom(ion[:2].upper(), ion, 50, 'A', ctx.real('ix', -20, 20), ctx.real('iy', -20, 20), ctx.real('iz', -20, 20), rec='hetatm')
    ig = G.IonGroup(ia)
    ig.parameters = p
    ig.charge = p.ions[ion]
    H.set_xyz(ig, ia.x, ia.y, ia.z)
    ig.num_volume = ctx.count('ion_num_volume', 0, 2000)
    conf.groups.append(ig)
    D.set_ion_determinants(conf, H.version())
    dets = g.determinants['coulomb']
    sq = ia.x * ia.x + ia.y * ia.y + ia.z * ia.z
    ctx.claim('at-most-one', len(dets) <= 1)
    ctx.claim('cutoff', Implies(ge(sq, 100.0), len(dets) == 0))
    ctx.claim('in-range-gets-one', Implies(lt(sq, 100.0), len(dets) == 1))
    bound = COUL_MAX * abs(ig.charge)
    for d in dets:
        ctx.claim('sign', le(d.value * ig.charge, 0))
        ctx.claim('magnitude', And(le(d.value, bound), ge(d.value, -bound)))
        ctx.claim('partner', d.group is ig)
    ctx.claim('ion-itself-untouched', sum(len(v) for v in ig.determinants.values()) == 0)


def o_backbone(ctx):
    """set_backbone_determinants on one titratable group and one backbone
    group with the angle factor supplied symbolically (angle_distance_factors
    stubbed; |f_angle| <= 1 is its own obligation)."""
    import propka.determinants as D
    import propka.group as G
    p = H.params()
    # every group type the shipped file lists for a backbone N-H / C=O partner, protein and ligand (a ligand aromatic nitrogen
    # is a base that pairs with N-H; a ligand carboxylate is an acid that pairs with both)
    kind = ctx.choice('kind', ['BBN-COO', 'BBN-CYS', 'BBN-TYR', 'BBC-HIS', 'BBC-LYS', 'BBN-NAR', 'BBC-NAR', 'BBN-OCO', 'BBC-OCO', 'BBC-CG', 'BBC-C2N', 'BBC-N30', 'BBC-N31', 'BBC-N32', 'BBC-N33'])
    bb_t, tt = kind.split('-')
    fa = ctx.real('f_angle', -1, 1)
    d = ctx.real('dist', 0.001, 20)
    old = D.angle_distance_factors
    D.angle_distance_factors = lambda atom1=None, atom2=None, atom3=None, center=None: (d, fa, d)
    try:
        # titratable side
        spec = {'COO': (G.COOGroup, 'ASP', 'CG', -1), 'CYS': (G.CYSGroup, 'CYS', 'SG', -1),
                'TYR': (G.TYRGroup, 'TYR', 'OH', -1), 'HIS': (G.HISGroup, 'HIS', 'CG', 1),
                'LYS': (G.LYSGroup, 'LYS', 'NZ', 1),
                'NAR': (G.NARGroup, 'LIG', 'N1', 1), 'OCO': (G.OCOGroup, 'LIG', 'C1', -1), 'CG': (G.CGGroup, 'LIG', 'C1', 1), 'C2N': (G.C2NGroup, 'LIG', 'C1', 1),
                'N30': (G.N30Group, 'LIG', 'N1', 1), 'N31': (G.N31Group, 'LIG', 'N1', 1), 'N32': (G.N32Group, 'LIG', 'N1', 1), 'N33': (G.N33Group, 'LIG', 'N1', 1)}[tt]
        lig = spec[1] == 'LIG'
        ta = H.atom(spec[2], spec[1], 10, 'A', 0.0, 0.0, 0.0, rec='hetatm' if lig else 'atom')
        tg = spec[0](ta)
        tg.parameters = p
        tg.charge = spec[3]
        tg.titratable = True
        if lig and tt not in ('OCO',):
            # a base: its proton (interaction atom for acids) and the heavy atom
            hh = H.atom('H1', 'LIG', 10, 'A', 0.0, 0.0, 1.0, element='H', rec='hetatm')
            hh.bonded_atoms = [ta]
            ta.bonded_atoms = [hh]
            tg.set_interaction_atoms([hh, ta], [ta])
        elif tt == 'HIS':
            hn = H.atom('ND1', 'HIS', 10, 'A', 0.0, 0.0, 0.0)
            hh = H.atom('HD1', 'HIS', 10, 'A', 0.0, 0.0, 1.0, element='H')
            hh.bonded_atoms = [hn]
            hn.bonded_atoms = [hh]
            tg.set_interaction_atoms([hh, hn], [hn])
        else:
            ia = H.atom('OD1' if tt == 'COO' else ('O1' if tt == 'OCO' else spec[2]), spec[1], 10, 'A', 0.0, 0.0, 0.0, rec='hetatm' if lig else 'atom')
            tg.set_interaction_atoms([ia], [ia])
        # backbone side at symbolic distance along x
        if bb_t == 'BBN':
            n = H.atom('N', 'ALA', 20, 'A', d + 1.0, 0.0, 0.0)
            h = H.atom('H', 'ALA', 20, 'A', d, 0.0, 0.0, element='H')
            h.bonded_atoms = [n]
            n.bonded_atoms = [h]
            bg = G.BBNGroup(n)
            bg.parameters = p
            bg.set_interaction_atoms([h, n], [h, n])
        else:
            c = H.atom('C', 'ALA', 20, 'A', d + 1.2, 0.0, 0.0)
            o = H.atom('O', 'ALA', 20, 'A', d, 0.0, 0.0)
            bg = G.BBCGroup(c)
            bg.parameters = p
            bg.set_interaction_atoms([o], [o])
        D.set_backbone_determinants([tg], [bg], H.version())
    finally:
        D.angle_distance_factors = old
    dets = tg.determinants['backbone']
    ctx.claim('at-most-one', len(dets) <= 1)
    for x in dets:
        ctx.claim('sign-follows-charge', ge(x.value * tg.charge, 0))
        ctx.claim('magnitude', And(le(x.value, 0.85), ge(x.value, -0.85)))
    ctx.claim('others-untouched', len(tg.determinants['sidechain']) + len(tg.determinants['coulomb']) == 0)
    if tt == 'LYS':
        ctx.claim('no-parameters-no-determinant', len(dets) == 0)


def o_angle_factor(ctx):
    """|f_angle| <= 1 and distances >= 0 for angle_distance_factors
    (Cauchy-Schwarz over purified unit vectors)."""
    import propka.energy as E
    a1 = H.atom('O', 'ASP', 1, 'A', ctx.real('x1', -5, 5), ctx.real('y1', -5, 5), ctx.real('z1', -5, 5))
    a2 = H.atom('H', 'ALA', 2, 'A', 0.0, 0.0, 0.0, element='H')
    a3 = H.atom('N', 'ALA', 2, 'A', ctx.real('x3', -5, 5), ctx.real('y3', -5, 5), ctx.real('z3', -5, 5))
    ctx.assume(Not(And(eq(a1.x, 0), eq(a1.y, 0), eq(a1.z, 0))))
    ctx.assume(Not(And(eq(a3.x, 0), eq(a3.y, 0), eq(a3.z, 0))))
    d12, fa, d23 = E.angle_distance_factors(a1, a2, a3)
    ctx.claim('dist-nonneg', And(ge(d12, 0), ge(d23, 0)))
    ctx.claim('f_angle-le-1', le(fa, 1))
    ctx.claim('f_angle-ge-minus-1', ge(fa, -1))


def o_exceptions(ctx):
    """COO-COO exception scaling and the configured constants stay inside the
    stated bounds: value*(1+pair_weight) <= 2*0.85; constants are 1.6 / 3.6"""
    import propka.energy as E
    p = H.params()
    n1 = ctx.int('n1', 0, 5000)
    n2 = ctx.int('n2', 0, 5000)
    dist = ctx.real('dist', 0, 100)
    c = p.sidechain_cutoffs.get_value('COO', 'COO')
    val = E.hydrogen_bond_energy(dist, p.sidechain_interaction, c, 1.0)
    w = E.calculate_pair_weight(p, n1, n2)
    tot = val * (1.0 + w)
    ctx.claim('coo-coo-bound', And(ge(tot, 0), le(tot, 2 * 0.85)))
    ctx.claim('exception-constants', p.COO_HIS_exception == 1.6 and p.OCO_HIS_exception == 1.6
              and p.CYS_HIS_exception == 1.6 and p.CYS_CYS_exception == 3.6 and p.sidechain_interaction == 0.85)
    b = E.check_buried(n1, n2)
    ctx.claim('buried-rule', eq(1 if b else 0,
                                ite(Or(lt(900, n1 + n2), And(lt(400, n1), lt(400, n2))), 1, 0)))


PAIR_EXCEPTION = {frozenset(('COO', 'HIS')): 'COO_HIS_exception', frozenset(('OCO', 'HIS')): 'OCO_HIS_exception',
                  frozenset(('CYS', 'HIS')): 'CYS_HIS_exception', frozenset(('CYS',)): 'CYS_CYS_exception'}


def o_exception_per_pair(ctx):
    """the real hydrogen_bond_interaction on two real groups of every ordered pair of types: the value stays within twice the
    side-chain maximum, apart from the exception value configured for THAT pair of types (the four burial exceptions
    symbolic, so that one pair cannot borrow the value of another)"""
    import propka.energy as E
    from .c02 import mk_group
    spec = {'COO': ('COOGroup', 'ASP', 'CG', -1, 'atom'), 'OCO': ('OCOGroup', 'LIG', 'C1', -1, 'hetatm'), 'HIS': ('HISGroup', 'HIS', 'CG', 1, 'atom'),
            'CYS': ('CYSGroup', 'CYS', 'SG', -1, 'atom'), 'TYR': ('TYRGroup', 'TYR', 'OH', -1, 'atom'), 'LYS': ('LYSGroup', 'LYS', 'NZ', 1, 'atom')}
    t1 = ctx.choice('type1', sorted(spec))
    t2 = ctx.choice('type2', sorted(spec))
    p = H.params(fresh=True)
    exc = {}
    for n in sorted(set(PAIR_EXCEPTION.values())):
        exc[n] = ctx.real(n, 0.0, 4.0)
        setattr(p, n, exc[n])
    gs = []
    for i, t in enumerate((t1, t2)):
        cls, rn, an, q, rec = spec[t]
        g = mk_group(cls, rn, 10 + 10 * i, an, q=q, p=p, rec=rec)
        g.num_volume = ctx.int('num_volume%d' % i, 0, 1500)
        gs.append(g)
    x = ctx.real('distance', 0.5, 8.0)
    H.set_xyz(gs[1].atom, x, 0.0, 0.0)
    for g in gs:
        g.set_interaction_atoms([g.atom], [g.atom])
    v = H.version(p)
    hb = E.hydrogen_bond_interaction(gs[0], gs[1], v)
    if hb is None:
        return
    two = 2 * p.sidechain_interaction
    name = PAIR_EXCEPTION.get(frozenset((t1, t2)))
    ctx.claim('non-negative', ge(hb, 0))
    if name is None:
        ctx.claim('within-twice-the-side-chain-maximum', le(hb, two))
    else:
        ctx.claim('within-twice-the-maximum-or-the-exception-of-this-pair', Or(le(hb, two), eq(hb, exc[name])), detail='%s-%s: %s' % (t1, t2, name))
        buried = Or(lt(900, gs[0].num_volume + gs[1].num_volume), And(lt(400, gs[0].num_volume), lt(400, gs[1].num_volume)))
        ctx.claim('buried-pair-gets-its-own-exception-value', Implies(buried, eq(hb, exc[name])), detail='%s-%s: %s' % (t1, t2, name))


def mutate_to_ala(txt, resnum):
    out = []
    for l in txt.split('\n'):
        if l.startswith('ATOM') and int(l[22:26]) == resnum:
            if l[12:16].strip() not in ('N', 'CA', 'C', 'O', 'CB'):
                continue
            l = l[:17] + 'ALA' + l[20:]
        if l:
            out.append(l)
    return '\n'.join(out) + '\n'


ACIDS, BASES = ('COO', 'CYS', 'TYR'), ('HIS', 'LYS', 'ARG')


def mk_end_state(name, icode_twin=None, params=None, mutant=None, first_model_without=None):
    """sign and bound audit of every determinant the whole pipeline finally
    records (after iterations, coupling effects and the coupling probe), per
    conformation; structure under a symbolic grid shift"""
    def body(ctx):
        from . import micro as M
        txt = M.text(name)
        if icode_twin:
            # renumber one residue so that it shares its number with its neighbour and differs in insertion code only
            src, dst = icode_twin
            txt = ''.join((l[:22] + '%4d' % dst + 'A' + l[27:] + '\n') if (l.startswith('ATOM') and int(l[22:26]) == src) else (l + '\n')
                          for l in txt.split('\n') if l)
        if first_model_without is not None:
            # MODEL 1 lacks the residue before an aspartate, which is therefore a chain start there (its side chain is penalised
            # through its own N+); in MODEL 2 the same aspartate is an ordinary, reported residue
            short = '\n'.join(l for l in txt.split('\n') if l and not (l.startswith('ATOM') and int(l[22:26]) == first_model_without)) + '\n'
            txt = M.models(short, txt)
        if mutant:
            # sequence micro-heterogeneity: MODEL 1 has an alanine where MODEL 2 has the titratable residue
            txt = M.models(mutate_to_ala(txt, mutant), txt)
        k = ctx.int('shift_thousandths', 0, 2509)
        t = k / 1000.0 if ctx.native else k / 1000

        def tr(a):
            a.y = a.y + t
        mol = M.run(txt, transform=tr, params=params)
        p = mol.version.parameters
        # the reported average too: a mean of values that each obey a sign rule / bound obeys it as well
        for cname in list(mol.conformation_names) + ['AVR']:
            conf = mol.conformations[cname]
            # 'the two Coulomb determinants of an acid-base pair of reported protein side chains are equal and opposite'
            # 'reported': a group that was penalised in a covalently coupled system (coupled_titrating_group set) is not reported
            # and its determinants were removed from its partners (finding F9 concerns that mechanism, not this clause)
            side = [g for g in conf.groups if g.titratable and g.atom.type == 'atom' and g.residue_type not in ('N+', 'C-') and not g.coupled_titrating_group]
            for ga in [g for g in side if g.type in ACIDS]:
                for gb in [g for g in side if g.type in BASES]:
                    # partner matched by object, not by label (labels of insertion-coded twins coincide: finding F5)
                    va = [d.value for d in ga.determinants['coulomb'] if d.group is gb]
                    vb = [d.value for d in gb.determinants['coulomb'] if d.group is ga]
                    if va or vb:
                        ctx.claim('acid-base-pair-equal-and-opposite', eq(sum(va, 0) + sum(vb, 0), 0),
                                  detail='conformation %s: %s <- %s %r, %s <- %s %r' % (cname, ga.label, gb.label, va, gb.label, ga.label, vb))
            charge_of = {}
            # the average lists only the groups that are reported; partners (ions, ...) are looked up in the real conformations
            for c2 in [conf] + [mol.conformations[n] for n in mol.conformation_names]:
                for g in c2.groups:
                    charge_of.setdefault(g.label, set()).add(g.charge)
            for g in conf.groups:
                if not g.titratable:
                    continue
                q = g.charge
                ctx.claim('desolvation-sign', ge(g.energy_volume * (-q), 0) if q else True, detail=g.label)
                ctx.claim('buried-in-0-1', And(ge(g.buried, 0), le(g.buried, 1)))
                for d in g.determinants['backbone']:
                    ctx.claim('backbone-sign', ge(d.value * q, 0), detail='%s <- %s %r' % (g.label, d.label, d.value))
                    ctx.claim('backbone-bound', And(le(d.value, 0.85), ge(d.value, -0.85)))
                for d in g.determinants['coulomb']:
                    qs = charge_of.get(d.label, set())
                    if len(qs) == 1:
                        pq = list(qs)[0]
                        ctx.claim('coulomb-sign', le(d.value * pq, 0), detail='%s (q=%+g) <- %s (q=%+g): %r' % (g.label, q, d.label, pq, d.value))
                        ctx.claim('coulomb-bound', And(le(d.value, COUL_MAX * abs(pq)), ge(d.value, -COUL_MAX * abs(pq))))
                for d in g.determinants['sidechain']:
                    ctx.claim('sidechain-bound', And(le(d.value, 3.6), ge(d.value, -3.6)), detail='%s <- %s %r' % (g.label, d.label, d.value))
    return body


def obligations(tier):
    from .micro import BURIED as M_BURIED
    E = 'propka/energy.py:'
    D = 'propka/determinants.py:'
    obs = [
        Obligation('O1-coulomb_energy', o_coulomb_energy, code=[E + 'coulomb_energy'],
                   bounds='dist in [0,1e4], weight in [0,1]', claim_doc='0 <= v <= 244.12/120; v = 0 at dist >= coulomb_cutoff2'),
        Obligation('O2-hydrogen_bond_energy', o_hbond_energy, code=[E + 'hydrogen_bond_energy'],
                   bounds='dist in [0,1000], |dpka_max| <= 0.85, 0 <= c0 < c1 <= 10, |f_angle| <= 1',
                   claim_doc='0 <= v <= 0.85; 0 beyond outer cut-off'),
        Obligation('O3-weights', o_weights, code=[E + 'calculate_weight', E + 'calculate_scale_factor', E + 'calculate_pair_weight'],
                   bounds='num_volume in [0,1e5]', claim_doc='weights clamped to [0,1]'),
        Obligation('O4-desolvation-sign-bounds', o_desolvation_many,
                   code=[E + 'calculate_weight', E + 'calculate_scale_factor'],
                   bounds='charge in {-1,+1}, num_volume in [0,1e5], volume in [0,1000]',
                   claim_doc='energy_volume has the sign of -charge*prefactor; buried in [0,1]'),
        Obligation('O5-coulomb-pair-rules', o_coulomb_pairs,
                   code=[D + 'add_coulomb_determinants', D + 'add_coulomb_acid_pair', D + 'add_coulomb_base_pair',
                         D + 'add_coulomb_ion_pair', E + 'electrostatic_interaction', E + 'check_coulomb_pair',
                         E + 'coulomb_energy', E + 'calculate_pair_weight'],
                   bounds='charges in {-1,+1}^2, model pKa in [0,14], num_volume in [0,2000], dist in [0,1000]',
                   claim_doc='sign(v) = -sign(partner charge); |v| <= 244.12/120; acid-base pair equal and opposite'),
        Obligation('O6-sidechain-pair-rules', o_sidechain_pairs, code=[D + 'add_sidechain_determinants'],
                   bounds='charges in {-1,+1}^2, hbond value in [0,3.6] (stub of hydrogen_bond_interaction)',
                   shims=['version.hydrogen_bond_interaction_model -> symbolic non-negative value'],
                   claim_doc='both groups get one determinant of magnitude = the H-bond value'),
        Obligation('O7-iterative-pair-rules', o_iterative_pairs,
                   code=['propka/iterative.py:add_iterative_acid_pair', 'propka/iterative.py:add_iterative_base_pair',
                         'propka/iterative.py:add_iterative_ion_pair', 'propka/iterative.py:Iterative.__init__'],
                   bounds='charges in {-1,+1}^2, hbond in [0,3.6], coulomb in [0,max], annihilation in [-10,10]^2',
                   claim_doc='Coulomb entries obey the sign rule with magnitude = coulomb value'),
        Obligation('O8-ion-determinants', o_ion_determinants, code=[D + 'set_ion_determinants', E + 'coulomb_energy'],
                   bounds='one ion per distinct configured charge (-2,-1,1,2,3), ion position in [-20,20]^3, group charge +-1',
                   claim_doc='sign(v) = -sign(ion charge); |v| <= max*|ion charge|; none at >= 10 A'),
        Obligation('O9-backbone-determinants', o_backbone, code=[D + 'set_backbone_determinants', E + 'hydrogen_bond_energy'],
                   bounds='5 group-type pairings, dist in [0.001,20], f_angle in [-1,1] (stubbed angle_distance_factors)',
                   shims=['determinants.angle_distance_factors -> symbolic (dist, f_angle)'],
                   claim_doc='sign(v) = sign(group charge); |v| <= 0.85'),
        Obligation('O10-exceptions', o_exceptions, code=[E + 'check_buried', E + 'hydrogen_bond_energy', E + 'calculate_pair_weight'],
                   bounds='num_volume in [0,5000]^2, dist in [0,100]', claim_doc='COO-COO exception <= 2*0.85; constants 1.6/3.6'),
        Obligation('O10-exception-value-per-pair-of-types', o_exception_per_pair,
                   code=[E + 'hydrogen_bond_interaction', E + 'check_exceptions', E + 'check_buried', E + 'check_coo_coo_exception', E + 'hydrogen_bond_energy',
                         'propka/version.py:VersionA.calculate_side_chain_energy', 'propka/version.py:VersionA.get_hydrogen_bond_parameters'],
                   bounds='two real groups of every ordered pair of types over {COO, OCO, HIS, CYS, TYR, LYS}, one interaction atom each at distance in [0.5,8], num_volume in [0,1500]^2, '
                          'the four configured burial exception values symbolic in [0,4]',
                   claim_doc='0 <= value <= 2*0.85, or the value is the exception configured for this (unordered) pair of types; a buried exception pair gets exactly its own value', max_paths=3000),
    ]
    els = [('C', 'CB', False), ('N', 'N', False), ('C', 'CA', False)]
    for sign in (-1, 1):
        obs.append(Obligation('O11-desolvation-loop-q%+d' % sign, mk_desolvation(els, sign),
                              code=[E + 'radial_volume_desolvation', 'propka/calculations.py:squared_distance'],
                              bounds='3 environment atoms (C4, N, CA) with symbolic x in [-30,30], fixed small y,z offsets', max_paths=400,
                              claim_doc='sign of energy_volume, 0 <= buried <= 1', wall_s=120))
    for name, res in ([('pair_ASP_ARG', 87), ('pair_LYS_ASP', 43)] if tier == 'quick' else [('pair_ASP_ARG', 87), ('pair_ASP_ARG', 29), ('pair_LYS_ASP', 43), ('pair_GLU_ARG_TYR', 59), ('pair_GLU_ARG_TYR', 35)]):
        obs.append(Obligation('O13-pipeline-end-state[%s,MODEL1:%d->ALA,buried]' % (name, res), mk_end_state(name, None, M_BURIED, res),
                              code=['propka/run.py:single (whole pipeline)', D + 'set_determinants', 'propka/molecular_container.py:MolecularContainer.average_of_conformations',
                                    'propka/group.py:Group.add_determinant', 'propka/group.py:Group.__iadd__'],
                              bounds='two-MODEL file from micro-structure %s: residue %d is an alanine in MODEL 1; Nmin/Nmax lowered to 6/30; symbolic grid shift t in [0,2.509]' % (name, res),
                              claim_doc='as O13, in particular: within each conformation the two Coulomb determinants of an acid-base side-chain pair are equal and opposite (after averaging too)',
                              max_paths=5000, wall_s=170))
    for name, res in ([('pair_ASP_ARG', 28)] if tier == 'quick' else [('pair_ASP_ARG', 28), ('pair_LYS_ASP', 59), ('pep8', 28)]):
        obs.append(Obligation('O13-pipeline-end-state[%s,MODEL1 without residue %d,buried]' % (name, res), mk_end_state(name, None, M_BURIED, None, res),
                              code=['propka/run.py:single (whole pipeline)', 'propka/conformation_container.py:ConformationContainer.coupling_effects', 'propka/conformation_container.py:ConformationContainer.calculate_pka',
                                    'propka/group.py:Group.remove_determinants'],
                              bounds='two-MODEL file from %s: MODEL 1 lacks residue %d, so that the following aspartate starts a chain there; Nmin/Nmax 6/30; symbolic grid shift' % (name, res),
                              claim_doc='as O13 in every conformation: what was penalised in one conformation is an ordinary group in the other', max_paths=5000, wall_s=170))
    fx = [('pair_ASP_ARG', None), ('pair_ASP_ARG', (30, 29)), ('pair_GLU_ARG_TYR', None), ('pair_LYS_ASP', None), ('complex_MTX', None), ('complex_MTX2', None), ('pair_LYS_ASP_2CL', None)]
    if tier == 'thorough':
        fx += [('pep8', None), ('pep8', (30, 29)), ('pair_ASP_ASP', None), ('nterm_ASP_LYS', None), ('lig_MTX', None), ('pair_CYS_CYS_bridge', None)]
    from .micro import BURIED
    for name, twin in fx:
      for params, ptag in ((None, ''), (BURIED, ',buried')):
        if tier == 'quick' and name.startswith('complex') and not params:
            continue
        obs.append(Obligation('O13-pipeline-end-state[%s%s%s]' % (name, ',%d->%dA' % twin if twin else '', ptag), mk_end_state(name, twin, params),
                              code=['propka/run.py:single (whole pipeline)', D + 'set_determinants', D + 'set_backbone_determinants', 'propka/iterative.py:add_determinants',
                                    'propka/coupled_groups.py:NonCovalentlyCoupledGroups.identify_non_covalently_coupled_groups'],
                              bounds='micro-structure %s%s%s under a symbolic grid shift t in [0,2.509]' % (name, ' with residue %d renumbered %dA (insertion-coded twin)' % twin if twin else '', ' with Nmin/Nmax lowered to 6/30 so that burial, Coulomb and iterative paths are active' if params else ''),
                              claim_doc='every finally recorded determinant obeys the sign rules and bounds, in every conformation', max_paths=5000, wall_s=170,
                              split_input=('shift_thousandths', 8) if name.startswith('complex') else None))
    obs.append(Obligation('O12-angle-factor', o_angle_factor, code=[E + 'angle_distance_factors'],
                          bounds='two neighbour atoms in [-5,5]^3 around the hydrogen at the origin', query_timeout_ms=60000,
                          claim_doc='|f_angle| <= 1 (Cauchy-Schwarz)', tiers=('thorough',), wall_s=400))
    return obs


MANIFEST_ENTRY = {
    'level_note': ('Exact-real model of floats. Unit obligations on energy.coulomb_energy, hydrogen_bond_energy, calculate_weight, '
                   'calculate_scale_factor, calculate_pair_weight, radial_volume_desolvation, determinants.add_coulomb_*_pair, '
                   'add_sidechain_determinants, set_ion_determinants, set_backbone_determinants, iterative.add_iterative_*_pair, '
                   'check_buried with the shipped propka.cfg. Stubs: hydrogen_bond_interaction -> symbolic non-negative value (O6), '
                   'angle_distance_factors -> symbolic (dist, f_angle in [-1,1]) (O9; |f_angle|<=1 is its own thorough obligation). '
                   'Counts are relaxed to reals and counterexamples re-solved with integrality. The lift from per-pair rules to whole '
                   'structures is by locality (each determinant is produced by exactly one of these calls) and is argued in DESIGN.md, not solved.'),
}
