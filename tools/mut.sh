#!/bin/bash
# tools/mut.sh <PROP> <file-relative-to-repo> <sed-expr> [tier]   -- run a check against a one-line mutant in a scratch worktree
W=/tmp/mutA
[ -d $W ] || git -C /repo worktree add -f $W HEAD -q
git -C $W checkout -q -- .
git -C $W checkout -q --detach $(git -C /repo rev-parse HEAD)
sed -i "$3" $W/$2
if git -C $W diff --quiet; then echo "MUTATION DID NOT APPLY"; exit 9; fi
git -C $W diff | grep '^[-+][^-+]' | head -6
cd /verif && PROPKA_REPO=$W ./check $1 --tier ${4:-quick} --no-evidence 2>&1 | grep -v "^HARNESS" | tail -4
git -C $W checkout -q -- .
