#!/bin/bash
# tools/seed_eval.sh <PROP> [tier] [worktree]  -- confirm a seeded change in its scratch worktree and run the check against it.
# The worktree's source is first reset to HEAD + _seed/patch.diff (no git stash: the stash is shared between worktrees).
P=$1; TIER=${2:-quick}; W=${3:-/tmp/seed_$P}
cd $W || exit 9
git checkout -q -- propka
if ! git apply _seed/patch.diff; then echo "PATCH DOES NOT APPLY"; exit 8; fi
echo "== $P: changed files: $(git diff --stat -- propka | tail -1)"
echo "-- suite with the change:"
/venv/bin/python -m pytest -q -p no:cacheprovider --timeout=900 2>&1 | tail -1
echo "-- demo with the change (expect exit 1):"
/venv/bin/python _seed/demo.py > /tmp/seed_demo_$P.with 2>&1; echo "exit $?"
git apply -R _seed/patch.diff
echo "-- demo without the change (expect exit 0):"
/venv/bin/python _seed/demo.py > /tmp/seed_demo_$P.without 2>&1; echo "exit $?"
git apply _seed/patch.diff
echo "-- check $P ($TIER) against the changed tree:"
cd /verif && PROPKA_REPO=$W ./check $P --tier $TIER --no-evidence > /tmp/seed_check_$P.out 2>&1
echo "VIOLATION lines: $(grep -c '^VIOLATION' /tmp/seed_check_$P.out)   HARNESS-ERROR lines: $(grep -c 'HARNESS' /tmp/seed_check_$P.out)"
grep '^VIOLATION' /tmp/seed_check_$P.out | cut -c1-230 | head -4
grep -v "^claim\|^$\|^replay\|KNOWN-FINDING\|^VIOLATION" /tmp/seed_check_$P.out | cut -c1-230 | tail -3
