"""shared builders for harnesses.  propka is imported lazily (inside functions)
so that the runner decides whether the instrumented or the plain package is
loaded in this process."""
import io
import os

REPO = os.environ.get('PROPKA_REPO', '/repo')

_P = {}


def params(fresh=False):
    """the real Parameters object parsed from the shipped propka.cfg"""
    if fresh or 'p' not in _P:
        from propka.parameters import Parameters
        from propka.input import read_parameter_file
        p = read_parameter_file(os.path.join(REPO, 'propka', 'propka.cfg'), Parameters())
        if fresh:
            return p
        _P['p'] = p
    return _P['p']


def version(p=None):
    from propka.version import VersionA
    return VersionA(p or params())


class Opts:
    """minimal stand-in for lib.Options with the shipped defaults"""
    def __init__(self, **kw):
        self.keep_protons = False
        self.protonate_all = False
        self.chains = None
        self.titrate_only = None
        self.display_coupled_residues = False
        self.window = (0.0, 14.0, 1.0)
        self.grid = (0.0, 14.0, 0.1)
        self.filenames = []
        self.__dict__.update(kw)


def real_options(args=()):
    from propka.lib import loadOptions
    return loadOptions(list(args) + ['x.pdb'])


def molecule(p=None, options=None):
    from propka.molecular_container import MolecularContainer
    return MolecularContainer(p or params(), options or Opts())


def conformation(name='1A', p=None, mol=None):
    from propka.conformation_container import ConformationContainer
    mol = mol or molecule(p)
    c = ConformationContainer(name=name, parameters=p or params(), molecular_container=mol)
    mol.conformations[name] = c
    if name not in mol.conformation_names:
        mol.conformation_names.append(name)
    return c


def pdb_line(serial, name, res_name, chain, res_num, x, y, z, rec='ATOM', icode=' ',
             altloc=' ', occ=1.0, beta=0.0, element=None):
    """fixed-column PDB ATOM/HETATM record (name placed per element width)"""
    if element is None:
        element = name.strip()[0]
    if len(name) < 4 and len(element) == 1:
        nm = ' ' + name.ljust(3)
    else:
        nm = name.ljust(4)
    return "%-6s%5d %4s%1s%3s %1s%4d%1s   %8.3f%8.3f%8.3f%6.2f%6.2f          %2s\n" % (
        rec, serial, nm, altloc, res_name, chain, res_num, icode, x, y, z, occ, beta, element.rjust(2))


def atom(name, res_name, res_num, chain, x, y, z, rec='atom', element=None, icode=' ',
         terminal=None, numb=0):
    """a real propka Atom built through its constructor, coordinates may be
    symbolic (assigned after construction, exactly as Atom.set_property does)"""
    from propka.atom import Atom
    a = Atom()
    a.name = name
    a.res_name = "{0:<3s}".format(res_name)
    a.res_num = res_num
    a.chain_id = chain
    a.x, a.y, a.z = x, y, z
    a.type = rec
    a.icode = icode
    a.numb = numb
    a.terminal = terminal
    if element is None:
        element = name[0] if name else ''
    a.element = element
    fmt = "{r.name:3s}{r.res_num:>4d}{r.chain_id:>2s}"
    a.residue_label = fmt.format(r=a)
    return a


def set_xyz(obj, x, y, z):
    obj.x, obj.y, obj.z = x, y, z


def run_text(pdb_text, args=(), name='micro.pdb', write=False):
    """run the real pipeline on a PDB text (stream input)"""
    import propka.run
    return propka.run.single(name, optargs=list(args) + ['--quiet'], stream=io.StringIO(pdb_text),
                             write_pka=write)


def quiet():
    import logging
    logging.getLogger('propka').setLevel(logging.ERROR)
    logging.getLogger('').setLevel(logging.ERROR)
