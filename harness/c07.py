"""C07 -- content the model does not use has no effect on any result."""
from symx import And, Or, Not, Implies, eq, SStr, SInt, SReal, SBool
from symx.sstr import mk, as_els
from symx.runner import Obligation
from . import common as H
from . import pdbstream as PS

PROPERTY = 'C07'
META = {'assumptions': []}

BASE_KINDS = ['N', 'CA', 'OXT', 'HETN', 'TER', 'MODEL']
INSERTS = ['REMARK', 'HOH', 'WATN', 'H']


def mk_insertion(K, first):
    def body(ctx):
        seq = [first]
        while len(seq) < K:
            seq.append(ctx.choice('kind%d' % len(seq), BASE_KINDS))
        recs = PS.make_records(ctx, seq, altloc=False)
        base = PS.run_code(recs)
        ins_kind = ctx.choice('inserted', INSERTS)
        pos = ctx.choice('position', list(range(K + 1)))
        if ins_kind == 'H':
            # a hydrogen belongs to a residue of the file: it copies the residue
            # identity (number, insertion code, chain) of a neighbouring atom record
            nb = [r for r in (recs[pos - 1:pos] + recs[pos:pos + 1]) if r.is_atom]
            if not nb:
                ctx.assume(False)
            src = nb[0] if len(nb) == 1 else ctx.choice('h_neighbour', nb)
            # (record type included: a hetero residue's hydrogen is a HETATM record)
            extra = PS.Rec(50, 'H' if src.tag == 'ATOM  ' else 'HETH', src.digit, src.icode, src.chain, ' ')
        elif ins_kind in ('HOH', 'WATN'):
            extra = PS.Rec(50, ins_kind, PS.sym_char(ctx, 'xd', PS.DIGITS), PS.sym_char(ctx, 'xi', PS.ICODES),
                           PS.sym_char(ctx, 'xc', PS.CHAINS), ' ')
        else:
            extra = PS.Rec(50, 'REMARK', None, None, None, None)
        longer = recs[:pos] + [extra] + recs[pos:]
        got = PS.run_code(longer)
        ctx.claim('inserted-record-not-emitted', all(g[1] != 150 for g in got))
        PS.compare(ctx, 'ignorable-record-changes-nothing', got, base)
    return body


REF = H.pdb_line(1234, 'CA', 'GLY', 'B', 57, 11.111, -22.222, 33.333, icode='C', occ=0.5, beta=12.34)


def o_columns(ctx):
    """Atom.__init__/set_properties: every field the calculation uses is
    unaffected by the serial, occupancy, B-factor, segment/element/charge
    columns and by the never-read columns 12, 21, 28-30"""
    import propka.atom as A
    els = list(as_els(REF.rstrip('\n').ljust(80)))
    sym_cols = {}
    def put(col, name, alphabet):
        s = ctx.string(name, 1, alphabet)
        els[col] = as_els(s)[0]
        sym_cols[col] = s
    serial_kind = ctx.choice('serial', ['decimal', 'hybrid-upper', 'hybrid-lower'])
    if serial_kind == 'decimal':
        for c in range(6, 11):
            put(c, 's%d' % c, '0189')
    else:
        put(6, 's6', 'AZ' if serial_kind == 'hybrid-upper' else 'az')
        for c in range(7, 11):
            put(c, 's%d' % c, '09AZ' if serial_kind == 'hybrid-upper' else '09az')
    for c in [11, 20, 27, 28, 29]:
        put(c, 'u%d' % c, ' X9')
    for c in range(54, 66):
        put(c, 'o%d' % c, '019.')
    for c in range(66, 80):
        put(c, 'e%d' % c, ' XN+-1')
    line = mk(els)
    a = A.Atom(line=line)
    ref = A.Atom(line=REF)
    for f in ['name', 'x', 'y', 'z', 'res_num', 'res_name', 'chain_id', 'type', 'icode', 'element', 'residue_label', 'terminal']:
        v = getattr(a, f)
        ctx.claim('field-independent:' + f, not isinstance(v, (SStr, SReal)) and v == getattr(ref, f),
                  detail='%s = %r (reference %r)' % (f, v, getattr(ref, f)))
    ctx.claim('serial-goes-to-numb-only', isinstance(a.numb, (int, SInt)))


def o_element_from_name_columns(ctx):
    """hydrogens are recognised (and stripped) by the element inferred from the atom-name columns 13-16:
    every spelling of a hydrogen -- ' H  ', ' HB2', '1HB ', 'HH11', '1HH1', '2HD2' -- must give 'H',
    and heavy atoms must not; the four name characters are symbolic over a small alphabet"""
    import propka.atom as A
    from symx.sstr import mk, as_els
    els = list(as_els(H.pdb_line(1, 'CA', 'ARG', 'A', 10, 1.0, 2.0, 3.0)))
    c0 = ctx.string('n0', 1, ' 12HCNO')
    c1 = ctx.string('n1', 1, 'HCNOA')
    c2 = ctx.string('n2', 1, ' 12ABHDE')
    c3 = ctx.string('n3', 1, ' 12AB')
    for col, c in zip((12, 13, 14, 15), (c0, c1, c2, c3)):
        els[col] = as_els(c)[0]
    # names are left- or right-justified without inner blanks
    ctx.assume(Implies(c2 == ' ', c3 == ' '))
    a = A.Atom(line=mk(els))
    el = a.element
    first_is_letter = Or(c0 == 'H', c0 == 'C', c0 == 'N', c0 == 'O')
    # PDB convention: the element symbol is right-justified in columns 13-14
    hyd = Or(And(Not(first_is_letter), c1 == 'H'),                      # ' H..', '1H..', '2H..'
             And(c0 == 'H', c2 != ' ', c3 != ' '))                        # four-character names starting with H: 'HH11', 'HD21', ...
    if isinstance(el, str):
        got_h = (el == 'H')
    else:
        got_h = (el == 'H')
    ctx.claim('hydrogen-spellings-give-H', Implies(hyd, got_h), detail='element %r' % (el,))
    heavy_one_letter = And(Not(first_is_letter), Or(c1 == 'C', c1 == 'N', c1 == 'O'))
    for sym in 'CNO':
        ctx.claim('heavy-atoms-keep-their-element', Implies(And(Not(first_is_letter), c1 == sym), el == sym), detail='element %r' % (el,))


def o_plumbing(ctx):
    import propka.lib as L
    import propka.input as I
    args = ctx.choice('args', [[], ['-k'], ['--keep-protons'], ['--protonate-all'], ['-k', '--protonate-all']])
    opts = L.loadOptions(args + ['x.pdb'])
    ctx.claim('keep_protons', opts.keep_protons == ('-k' in args or '--keep-protons' in args))
    ctx.claim('protonate_all', opts.protonate_all == ('--protonate-all' in args))
    seen = {}
    orig = I.get_atom_lines_from_pdb

    def spy(pdb_file, ignore_residues=(), keep_protons=False, tags=('ATOM  ', 'HETATM'), chains=None):
        seen['keep'] = keep_protons
        seen['tags'] = tuple(tags)
        return iter(())
    I.get_atom_lines_from_pdb = spy
    try:
        I.read_pdb(PS.Stream([]), H.params(), H.molecule(options=opts))
    finally:
        I.get_atom_lines_from_pdb = orig
    ctx.claim('keep_protons-reaches-reader', seen.get('keep') == opts.keep_protons)
    ctx.claim('only-ATOM-HETATM-tags', seen.get('tags') == ('ATOM  ', 'HETATM'))
    # two parses share no mutable default
    o1 = L.loadOptions(['a.pdb'])
    o2 = L.loadOptions(['b.pdb'])
    ctx.claim('fresh-filenames-list', o1.filenames == ['a.pdb'] and o2.filenames == ['b.pdb'] and o1.filenames is not o2.filenames)


def mk_option_equivalence(name, amino_acids_only=True):
    """--protonate-all changes no pKa; feeding the program's own hydrogens back
    with --keep-protons reproduces the results; both under a symbolic grid
    translation of the structure"""
    def body(ctx):
        from . import micro as M
        from .c04 import with_hydrogens_text
        k = ctx.int('shift_thousandths', 0, 2509)
        t = k / 1000.0 if ctx.native else k / 1000

        def tr(a):
            a.y = a.y + t
        default = M.run(M.text(name), transform=tr)
        pall = M.run(M.text(name), args=['--protonate-all'], transform=tr)
        M.compare_heavy(ctx, 'protonate-all', default, pall)
        M.compare_results(ctx, 'protonate-all', default, pall)
        gd, gp = M.groups(default), M.groups(pall)
        ctx.claim('protonate-all:same-groups', sorted(gd) == sorted(gp), detail='only in one: %r' % (sorted(set(gd) ^ set(gp)),))
        if not amino_acids_only:
            return        # the keep-protons clause is stated for amino-acid structures
        # the program's own hydrogens (written with 3 decimals in the unshifted frame) fed back:
        # identical in the same frame; in a shifted frame the freshly built hydrogens may round
        # the other way at a near-tie, so only "within the effect of rounding" (0.01) is claimed there
        keep = M.run(with_hydrogens_text(name), args=['--keep-protons'], transform=tr)
        M.compare_heavy(ctx, 'keep-protons-own-hydrogens', default, keep)
        M.compare_results(ctx, 'keep-protons-own-hydrogens(shifted frame)', default, keep, tol=0.01)
        d0 = M.run(M.text(name))
        k0 = M.run(with_hydrogens_text(name), args=['--keep-protons'])
        M.compare_results(ctx, 'keep-protons-own-hydrogens(same frame)', d0, k0)
        # the supplied hydrogens are perceived as the program built them: each bonded to its one parent atom
        hb, hk = M.hydrogens(d0), M.hydrogens(k0)
        par = lambda m: sorted((M.akey(a), sorted(M.akey(x) for x in a.bonded_atoms)) for a in m.conformations['1A'].atoms if a.element == 'H')
        ctx.claim('keep-protons:hydrogen-bonding-as-built', par(d0) == par(k0), detail='differs for %r' % ([x for x in par(k0) if x not in par(d0)][:3],))
    return body


def obligations(tier):
    I = 'propka/input.py:'
    K = 2 if tier == 'quick' else 3
    obs = []
    for first in BASE_KINDS:
        obs.append(Obligation('O1-ignorable-record-insertion[K=%d,first=%s]' % (K, first), mk_insertion(K, first),
                              code=[I + 'get_atom_lines_from_pdb', 'propka/atom.py:Atom.__init__'],
                              bounds='%d base records (first %s, others any of %s) + one inserted record (REMARK / HETATM water / ATOM-record water '
                                     'named N / hydrogen of a neighbouring residue) at every position; symbolic residue digit, insertion code, chain'
                                     % (K, first, BASE_KINDS),
                              claim_doc='emitted records, terminal tags and conformation names unchanged by the insertion',
                              max_paths=400000, wall_s=170 if tier == 'quick' else 1500, shards=2 if tier == 'quick' else 8))
    obs.append(Obligation('O2-unused-columns', o_columns, code=['propka/atom.py:Atom.__init__', 'propka/atom.py:Atom.set_properties', 'propka/hybrid36.py:decode'],
                          bounds='one ATOM line; every character of columns 7-11 (decimal / upper / lower hybrid-36 serials), 12, 21, 28-30, 55-66 and 67-80 symbolic',
                          claim_doc='name, coordinates, residue number/name, chain, type, insertion code, element, residue_label are concrete and equal to the reference',
                          max_paths=20000))
    # ('name$n': residue n made the C-terminus -- a hydroxyl / thiol / amine four bonds from the terminal carboxylate)
    for name in (['tri_HIS', 'tri_ARG', 'tri_ASN', 'pair_GLU_ARG_TYR', 'pep_close_hydrogens', 'tri_SER$37', 'tri_THR$4'] if tier == 'quick' else
                 ['pep_close_hydrogens', 'tri_SER$37', 'tri_THR$4', 'tri_CYS$67', 'tri_LYS$14', 'tri_HIS', 'tri_ARG', 'tri_ASN', 'tri_GLN', 'tri_TRP', 'tri_ASP', 'tri_LYS', 'tri_TYR', 'tri_SER', 'tri_PRO', 'pep8', 'pair_GLU_ARG_TYR', 'pair_ASP_ARG', 'pair_LYS_ASP', 'cterm_PHE']):
        obs.append(Obligation('O3-protonate-all-and-keep-protons[%s]' % name, mk_option_equivalence(name),
                              code=['propka/hydrogens.py:setup_bonding_and_protonation', 'propka/protonate.py:Protonate.protonate', 'propka/protonate.py:Protonate.protonate_atom',
                                    'propka/input.py:get_atom_lines_from_pdb (keep_protons)', 'propka/run.py:single (whole pipeline)'],
                              bounds='amino-acid micro-structure %s under a symbolic grid translation t in [0,2.509] along y' % name,
                              claim_doc='every pKa and determinant identical between default and --protonate-all (any shift) and --keep-protons on the program\'s own hydrogens (same frame; within 0.01 in a shifted frame)',
                              max_paths=5000, wall_s=170 if tier == 'quick' else 1200))
    # ('complex_ZN%HG': the zinc replaced by another configured ion whose symbol starts like a lighter element)
    for name in (['complex_MTX', 'complex_ZN', 'complex_ZN%HG', 'lig_KNI'] if tier == 'quick' else ['complex_MTX', 'complex_ZN', 'complex_ZN%HG', 'complex_ZN%CA', 'complex_ZN%NA', 'complex_ZN%CU', 'lig_KNI', 'lig_MTX', 'lig_MTX_B']):
        obs.append(Obligation('O3-protonate-all[%s]' % name, mk_option_equivalence(name, amino_acids_only=False),
                              code=['propka/hydrogens.py:setup_bonding_and_protonation', 'propka/protonate.py:Protonate.protonate', 'propka/protonate.py:Protonate.set_charge',
                                    'propka/group.py:is_ligand_group_by_groups', 'propka/ligand.py:assign_sybyl_type', 'propka/run.py:single (whole pipeline)'],
                              bounds='structure with a ligand (%s) under a symbolic grid translation t in [0,2.509] along y' % name,
                              claim_doc='the same groups (incl. every ligand group) with identical pKa and determinants with and without --protonate-all',
                              max_paths=5000, split_input=('shift_thousandths', 12) if name.startswith('complex') else None, wall_s=170 if tier == 'quick' else 1200))
    from .c19 import mk_serials_irrelevant
    for name, res in ([('complex_MTX', 57)] if tier == 'quick' else [('complex_MTX', 57), ('complex_MTX', 27), ('complex_ZN', 45)]):
        obs.append(Obligation('O2-serial-column-in-a-two-MODEL-file[%s,MODEL2 lacks side chain %d]' % (name, res), mk_serials_irrelevant(name, truncated_model=res),
                              code=['propka/atom.py:Atom.set_properties (numb)', 'propka/molecular_container.py:MolecularContainer.top_up_conformations', 'propka/conformation_container.py:ConformationContainer.top_up_from_atoms',
                                    'propka/ligand.py:assign_sybyl_type', 'propka/run.py:single (whole pipeline)'],
                              bounds='two-MODEL file from %s (protein + ligand + ion), MODEL 2 without the side chain of residue %d; serial column rewritten by 8 numbering schemes (continued, restarting, descending, all equal, shuffled, hybrid-36 range, interleaved) plus a symbolic offset' % (name, res),
                              claim_doc='atoms after topping up, bonds, groups incl. ligand group types, pKa values and determinants identical in every conformation and in the average', max_paths=5000, split_input=('numbering', 8), wall_s=170 if tier == 'quick' else 1200))
    obs.append(Obligation('O2-element-from-name-columns', o_element_from_name_columns, code=['propka/atom.py:Atom.set_properties'],
                          bounds='the four atom-name characters symbolic over small alphabets (blank, digits 1-2, H C N O A B D E)',
                          claim_doc='every PDB spelling of a hydrogen name yields element H (so that it is stripped); C/N/O in column 14 keep their element', max_paths=20000))
    obs.append(Obligation('O4-option-plumbing', o_plumbing, code=['propka/lib.py:build_parser', 'propka/lib.py:loadOptions', I + 'read_pdb'],
                          bounds='5 command lines', kind='table-check'))
    return obs


MANIFEST_ENTRY = {
    'level_note': ('O1: relational check on the real record reader (file vs. file with one ignorable record inserted at any position); '
                   'O2: the real Atom constructor on a line whose unused columns are symbolic characters; O4: parser plumbing. '
                   'O3: default vs --protonate-all vs --keep-protons on the program\'s own hydrogens, whole pipeline on amino-acid micro-structures under a symbolic '
                   'grid translation; hetero groups under --protonate-all are outside the claim.'
                   ' O3: option equivalences at pipeline level under a symbolic translation, incl. structures with a ligand and with an ion inside the bonding cut-off (protonate-all clause).'),
}
