from .core import (Abort, Unsupported, Budget, SBool, SReal, SInt, Explorer, Ctx,
                   And, Or, Not, Implies, eq, le, ge, lt, ite, NativeCtx, run_native, lift_real, lift_int, lift_bool,
                   rv, val_of, is_sym, Fraction, cur)
from .sstr import SStr
from .shims import SAngle
