"""C02 -- reported pKa = model pKa + the contributions listed for it."""
from symx import And, Or, Not, Implies, eq, le, ge, lt, ite
from symx import markers
from symx.runner import Obligation
from . import common as H

PROPERTY = 'C02'
META = {'assumptions': []}

KINDS = ['sidechain', 'backbone', 'coulomb']


def mk_group(cls_name, res, num, atom_name, chain='A', q=-1, p=None, rec='atom'):
    import propka.group as G
    a = H.atom(atom_name, res, num, chain, 0.0, 0.0, 0.0, rec=rec)
    g = getattr(G, cls_name)(a)
    g.parameters = p or H.params()
    g.charge = q
    g.titratable = True
    return g


def fill(ctx, g, tag, partners, counts):
    """symbolic model pKa, desolvation terms and determinants"""
    from propka.determinant import Determinant
    g.model_pka = ctx.real(tag + '_model', 0, 14)
    g.energy_volume = ctx.real(tag + '_ev', -5, 5)
    g.energy_local = ctx.real(tag + '_el', -5, 5)
    for kind, n in zip(KINDS, counts):
        for i in range(n):
            v = ctx.real('%s_%s%d' % (tag, kind[:2], i), -4, 4)
            g.determinants[kind].append(Determinant(partners[i % len(partners)], v))


def total(g):
    s = g.model_pka + g.energy_volume + g.energy_local
    for k in KINDS:
        for d in g.determinants[k]:
            s = s + d.value
    return s


def o_total(ctx):
    g = mk_group('COOGroup', 'ASP', 10, 'CG')
    p1 = mk_group('LYSGroup', 'LYS', 20, 'NZ', q=1)
    p2 = mk_group('BBNGroup', 'ALA', 21, 'N', q=0)
    counts = ctx.choice('counts', [(0, 0, 0), (1, 0, 0), (0, 1, 0), (0, 0, 1), (2, 1, 3), (3, 3, 3), (1, 2, 0)])
    fill(ctx, g, 'g', [p1, p2], counts)
    bridged = ctx.choice('bridged', [False, True])
    g.atom.cysteine_bridge = bridged
    g.pka_value = ctx.real('stale', -50, 50)
    g.calculate_total_pka()
    if bridged:
        ctx.claim('bridged-99.99', eq(g.pka_value, 99.99))
    else:
        ctx.claim('sum', eq(g.pka_value, total(g)))
    # the call is a pure recomputation: lists unchanged
    ctx.claim('lists-unchanged', tuple(len(g.determinants[k]) for k in KINDS) == tuple(counts))


def mk_average(K):
    def body(ctx, K=K):
        mol = H.molecule()
        names = ['1A', '1B', '1C'][:K]
        groups = []
        partners_per_conf = []
        for ci, nm in enumerate(names):
            conf = H.conformation(nm, mol=mol)
            g = mk_group('COOGroup', 'ASP', 10, 'CG')
            p1 = mk_group('LYSGroup', 'LYS', 20, 'NZ', q=1)
            p2 = mk_group('TYRGroup', 'TYR', 30, 'OH', q=-1)
            counts = ctx.choice('counts%d' % ci, [(1, 0, 1), (2, 0, 2), (0, 0, 0)])
            fill(ctx, g, 'c%d' % ci, [p1, p2], counts)
            # the model pKa is a property of the group type: identical in
            # every conformation
            if groups:
                g.model_pka = groups[0].model_pka
            g.buried = ctx.real('c%d_buried' % ci, 0, 1)
            g.num_volume = ctx.count('c%d_nv' % ci, 0, 2000)
            g.calculate_total_pka()
            # the group may be missing from a conformation (a residue that is another residue type there): the average is
            # over the conformations that contain it
            present = ctx.choice('present%d' % ci, [True, False])
            conf.groups.extend([g, p1, p2] if present else [p1, p2])
            p1.titratable = False
            p2.titratable = False
            if present:
                groups.append(g)
        ctx.assume(len(groups) >= 1)
        K_all, K = K, len(groups)
        mol.average_of_conformations()
        avr = mol.conformations['AVR']
        ctx.claim('one-averaged-group', len(avr.groups) == 1)
        a = avr.groups[0]
        ctx.claim('average-is-self-consistent', eq(a.pka_value, total(a)),
                  detail='averaged pKa != model + averaged terms')
        ctx.claim('pka-is-mean', eq(a.pka_value * K, sum((g.pka_value for g in groups), 0.0)))
        ctx.claim('desolvation-is-mean', And(eq(a.energy_volume * K, sum((g.energy_volume for g in groups), 0.0)),
                                             eq(a.energy_local * K, sum((g.energy_local for g in groups), 0.0)),
                                             eq(a.buried * K, sum((g.buried for g in groups), 0.0))))
        # determinants: per (kind, partner label) the averaged value is the mean of the per-conformation sums
        for kind in KINDS:
            labels = []
            for g in groups:
                for d in g.determinants[kind]:
                    if d.label not in labels:
                        labels.append(d.label)
            ctx.claim('determinant-partners:' + kind, sorted(d.label for d in a.determinants[kind]) == sorted(labels))
            for lab in labels:
                tot = sum((d.value for g in groups for d in g.determinants[kind] if d.label == lab), 0.0)
                got = sum((d.value for d in a.determinants[kind] if d.label == lab), 0.0)
                ctx.claim('determinant-mean:' + kind, eq(got * K, tot))
        # the per-conformation groups are not modified by averaging
        for g in groups:
            ctx.claim('inputs-untouched', eq(g.pka_value, total(g)))
    return body


def o_render(ctx):
    """determinant table and summary print the API value, the group's own
    determinants (each once, column order sidechain/backbone/coulomb)"""
    import propka.output as O
    mol = H.molecule()
    conf = H.conformation('AVR', mol=mol)
    conf.chains = ['A']
    p = H.params()
    g = mk_group('COOGroup', 'ASP', 10, 'CG')
    p1 = mk_group('LYSGroup', 'LYS', 20, 'NZ', q=1)
    p2 = mk_group('TYRGroup', 'TYR', 30, 'OH', q=-1)
    counts = ctx.choice('counts', [(0, 0, 0), (1, 0, 0), (2, 1, 3), (0, 2, 1)])
    fill(ctx, g, 'g', [p1, p2], counts)
    g.buried = 0.37
    g.num_volume = 123
    g.num_local = 4
    g.calculate_total_pka()
    conf.groups.extend([g])
    coupled = ctx.choice('coupled', [False, True])
    if coupled:
        g.non_covalently_coupled_groups = [p1]
    markers.enable(ctx)
    text = markers.text_of(O.get_determinant_section(mol, 'AVR', p))
    rows = [l for l in text.split('\n') if l.startswith('ASP  10 A')]
    nlines = max(1, *counts)
    ctx.claim('row-count', len(rows) == nlines)
    f0 = markers.fields(ctx, rows[0][9:])
    ctx.claim('pka-shown', markers.shown(ctx, f0[0][0], g.pka_value))
    ctx.claim('star-iff-coupled', (rows[0][16] == '*') == coupled)
    ctx.claim('buried-percent', f0[1][0] == 37)
    ctx.claim('desolvation-shown', And(markers.shown(ctx, f0[2][0], g.energy_volume), f0[3][0] == 123,
                                        markers.shown(ctx, f0[4][0], g.energy_local), f0[5][0] == 4))
    if not ctx.native:
        ctx.claim('two-decimals', markers.spec_decimals(f0[0][1]) == 2)
    # determinant columns
    for li, row in enumerate(rows):
        cols = row[49:]
        cells = [cols[i * 18:(i + 1) * 18] for i in range(3)]
        for kind, cell in zip(KINDS, cells):
            dets = g.determinants[kind]
            if li < len(dets):
                fv = markers.fields(ctx, cell[:8])
                ctx.claim('determinant-value:' + kind, markers.shown(ctx, fv[0][0], dets[li].value))
                ctx.claim('determinant-label:' + kind, cell[9:] == dets[li].label)
            else:
                ctx.claim('empty-cell:' + kind, cell == '    0.00 XXX   0 X')
    stext = markers.text_of(O.get_summary_section(mol, 'AVR', p))
    srow = [l for l in stext.split('\n') if 'ASP  10 A' in l]
    ctx.claim('summary-once', len(srow) == 1)
    fs = markers.fields(ctx, srow[0][12:])
    ctx.claim('summary-pka', markers.shown(ctx, fs[0][0], g.pka_value))
    ctx.claim('summary-model-pka', markers.shown(ctx, fs[1][0], g.model_pka))


def o_add_determinant(ctx):
    """Group.__iadd__/add_determinant merge by partner group, not by value"""
    from propka.determinant import Determinant
    g = mk_group('COOGroup', 'ASP', 10, 'CG')
    h = mk_group('COOGroup', 'ASP', 10, 'CG')
    p1 = mk_group('LYSGroup', 'LYS', 20, 'NZ', q=1)
    p2 = mk_group('TYRGroup', 'TYR', 30, 'OH', q=-1)
    v1, v2, v3 = ctx.real('v1', -4, 4), ctx.real('v2', -4, 4), ctx.real('v3', -4, 4)
    g.determinants['coulomb'] = [Determinant(p1, v1)]
    h.determinants['coulomb'] = [Determinant(p2, v2), Determinant(p1, v3)]
    g += h
    d = {x.label: x.value for x in g.determinants['coulomb']}
    ctx.claim('two-partners', len(g.determinants['coulomb']) == 2)
    ctx.claim('merged-by-partner', And(eq(d[p1.label], v1 + v3), eq(d[p2.label], v2)))
    ctx.claim('source-untouched', And(eq(h.determinants['coulomb'][0].value, v2), eq(h.determinants['coulomb'][1].value, v3)))
    k = ctx.real('k', 1, 5)
    g.pka_value = ctx.real('pk', -5, 20)
    pk = g.pka_value
    g = g / k
    ctx.claim('division-all-fields', And(eq(g.pka_value * k, pk), eq(g.determinants['coulomb'][0].value * k, v1 + v3),
                                         eq(g.determinants['coulomb'][1].value * k, v2)))


def mk_pipeline_sum(name, args=(), params=None):
    """at the end of the whole pipeline (incl. coupling effects and the removal
    of penalised determinants) every group's pKa is the sum of what is THEN in
    its lists -- in every conformation and in the average -- and the written
    table shows exactly those determinants; structure under a symbolic grid shift"""
    def body(ctx):
        from . import micro as M
        import propka.output as O
        k = ctx.int('shift_thousandths', 0, 2509)
        t = k / 1000.0 if ctx.native else k / 1000

        def tr(a):
            a.z = a.z + t
        mol = M.run(M.text(name), args=list(args), transform=tr, params=params)
        for cname, conf in mol.conformations.items():
            for g in conf.groups:
                if g.atom.cysteine_bridge:
                    ctx.claim('bridged-99.99', eq(g.pka_value, 99.99))
                else:
                    ctx.claim('pka-is-sum-of-listed-contributions', eq(g.pka_value, total(g)),
                              detail='%s in %s: pKa %r, sum %r' % (g.label, cname, g.pka_value, total(g)))
        # the written table: per reported group, printed pKa and printed determinant values
        text = O.get_determinant_section(mol, 'AVR', mol.version.parameters)
        avr = {g.label: g for g in mol.conformations['AVR'].groups}
        rows = {}
        for ln in text.split('\n'):
            lab = ln[:9]
            if lab in avr and len(ln) > 100:
                rows.setdefault(lab, []).append(ln)
        # labels need not be unique (two copies of a ligand in one chain): the table has one block per listed group
        listed = [g for g in mol.conformations['AVR'].groups if g.use_in_calculations() and not (g.coupled_titrating_group and mol.version.parameters.remove_penalised_group)]
        starts = {}
        for ln in text.split('\n'):
            if len(ln) > 100 and ln[10:16].strip() and ln[:9] in avr:
                starts[ln[:9]] = starts.get(ln[:9], 0) + 1
        for lab in {g.label for g in listed}:
            n = len([g for g in listed if g.label == lab])
            ctx.claim('one-block-per-listed-group', starts.get(lab, 0) == n, detail='%r: %d blocks for %d groups' % (lab, starts.get(lab, 0), n))
        # the two result sections agree on which groups there are: every group of the summary has its rows in the table
        from . import micro as M2
        for lab in M2.reported(mol):
            ctx.claim('summary-group-has-determinant-rows', lab in rows, detail='%r is in the summary but has no row in the determinant section' % lab)
        all_labels = [g.label for g in mol.conformations['AVR'].groups if g.use_in_calculations()]
        for lab, lns in rows.items():
            g = avr[lab]
            if g.atom.cysteine_bridge or all_labels.count(lab) != 1:
                continue      # (rows of groups that share a label cannot be told apart by this parser: covered by the block count)
            printed = 0.0
            for ln in lns:
                cols = ln[49:]
                for i in range(3):
                    cell = cols[i * 18:(i + 1) * 18]
                    if 'XXX' not in cell:
                        printed += float(cell[:8])
            f0 = float(lns[0][10:16])
            desolv = float(lns[0][27:33]) + float(lns[0][39:45])
            ctx.claim('written-row-adds-up', abs(f0 - (g.model_pka + desolv + printed)) <= 0.005 * (3 + 3 * len(lns)) + 1e-9,
                      detail='%s: printed pKa %.2f, model %.2f + desolvation %.2f + determinants %.2f' % (lab, f0, g.model_pka, desolv, printed))
    return body


def obligations(tier):
    G = 'propka/group.py:'
    obs = [
        Obligation('O1-calculate_total_pka', o_total, code=[G + 'Group.calculate_total_pka'],
                   bounds='7 list-length patterns up to (3,3,3); all values symbolic; bridge flag in {0,1}',
                   claim_doc='pka_value == model + ev + el + sum(determinants); 99.99 when bridged'),
        Obligation('O4-average-K2', mk_average(2),
                   code=['propka/molecular_container.py:MolecularContainer.average_of_conformations', G + 'Group.clone',
                         G + 'Group.__iadd__', G + 'Group.add_determinant', G + 'Group.__truediv__',
                         'propka/conformation_container.py:ConformationContainer.find_group'],
                   bounds='2 conformations containing the group, 3 determinant patterns each, all numeric fields symbolic',
                   claim_doc='averaged group is self-consistent (pKa = model + averaged terms) and every field is the arithmetic mean'),
        Obligation('O5-rendering', o_render,
                   code=[G + 'Group.get_determinant_string', G + 'Group.get_determinant_for_string', G + 'Group.get_summary_string',
                         'propka/output.py:get_determinant_section', 'propka/output.py:get_summary_section'],
                   bounds='one group, 4 determinant patterns, symbolic values; buried/num_volume concrete', shims=['format markers'],
                   claim_doc='pKa token in table == pKa token in summary == group.pka_value (2 decimals); printed determinants are exactly the group\'s'),
        Obligation('O6-add-and-divide', o_add_determinant, code=[G + 'Group.__iadd__', G + 'Group.add_determinant', G + 'Group.__truediv__'],
                   bounds='2+1 determinants, symbolic values and divisor in [1,5]', claim_doc='merge by partner; division scales every field'),
    ]
    fx = [('nterm_ASP_LYS', ()), ('pep8', ()), ('lig_MTX', ()), ('pair_GLU_ARG_TYR', ()), ('pair_CYS_CYS_bridge', ()), ('complex_MTX', ()), ('complex_MTX^MTX=L', ()), ('tri_ASP$25', ()), ('tri_GLU$21', ()), ('complex_MTX2', ())]
    if tier == 'thorough':
        fx += [('pair_ASP_ARG', ()), ('pair_LYS_ASP', ()), ('pair_ASP_ASP', ('-d',)), ('lig_KNI', ()), ('cterm_PHE', ()), ('tri_HIS', ()), ('nterm_ASP_LYS', ('-d',))]
    from .micro import BURIED, COUPLED
    fxp = [(n, a, p, t) for n, a in fx for p, t in ((None, ''), (BURIED, ',buried'))]
    # non-covalently coupled pairs present; with -d the groups are left in the alternative (swapped) state
    fxp += [(n, a, COUPLED, ',coupled') for n in (['pep8', 'pair_ASP_ARG'] if tier == 'quick' else ['pep8', 'pair_ASP_ARG', 'pair_ASP_ASP', 'pair_GLU_ARG_TYR', 'pair_LYS_ASP']) for a in (('-d',), ())]
    for name, args, params, ptag in fxp:
      if not (tier == 'quick' and name.startswith('complex') and not params):
        obs.append(Obligation('O2-pipeline-end-state[%s%s%s]' % (name, ',' + ' '.join(args) if args else '', ptag), mk_pipeline_sum(name, args, params),
                              code=['propka/conformation_container.py:ConformationContainer.calculate_pka', 'propka/conformation_container.py:ConformationContainer.coupling_effects',
                                    G + 'Group.remove_determinants', G + 'Group.calculate_total_pka', 'propka/molecular_container.py:MolecularContainer.average_of_conformations',
                                    'propka/output.py:get_determinant_section'],
                              bounds='micro-structure %s %s%s under a symbolic grid translation t in [0,2.509] along z; whole pipeline' % (name, ' '.join(args), (' (Nmin/Nmax lowered to 6/30: burial, Coulomb, iterative paths active' + ('; coupling thresholds relaxed: non-covalently coupled pairs, swaps and the -d alternative state active' if params is COUPLED else '') + ')') if params else ''),
                              claim_doc='in every conformation and the average pKa == model + desolvation + the determinants then listed; written rows add up to the printed pKa',
                              max_paths=5000, wall_s=170 if tier == 'quick' else 1200, split_input=('shift_thousandths', 8) if name.startswith('complex') else None))
    if tier == 'thorough':
        obs.append(Obligation('O4-average-K3', mk_average(3), code=obs[1].code,
                              bounds='3 conformations', claim_doc=obs[1].claim_doc, max_paths=5000))
    return obs


MANIFEST_ENTRY = {
    'level_note': ('Unit obligations on Group.calculate_total_pka, average_of_conformations (+clone/__iadd__/add_determinant/__truediv__/'
                   'find_group) for a group present in every conformation (absence is C08), and the row writers with format markers. '
                   'O2: end state of the whole pipeline on micro-structures that contain penalised (covalently coupled) groups, ligands and a disulfide, '
                   'under a symbolic translation. Recomputation after swaps: C15.'),
}
