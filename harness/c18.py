"""C18 -- parameter tables are symmetric, complete and self-consistent."""
import ast
import itertools
import os

from symx import And, Or, Not, Implies, eq, le, ge, lt, ite
from symx.runner import Obligation
from . import common as H

PROPERTY = 'C18'
META = {'assumptions': []}

KEYS = ['A', 'B', 'C']


def o_interaction_matrix(ctx):
    """InteractionMatrix.add with K=3 triangular rows whose entries are chosen
    symbolically from {I, -, 1.5}: look-ups are symmetric"""
    from propka.parameters import InteractionMatrix
    m = InteractionMatrix('t')
    vals = ['I', '-', '1.5']
    expected = {}
    for i, k in enumerate(KEYS):
        row = [ctx.choice('v_%d_%d' % (i, j), vals) for j in range(i + 1)]
        m.add(tuple([k] + row))
        for j, v in enumerate(row):
            expected[(KEYS[j], k)] = expected[(k, KEYS[j])] = (1.5 if v == '1.5' else v)
    for a in KEYS:
        for b in KEYS:
            ctx.claim('symmetric', m.get_value(a, b) == m.get_value(b, a))
            ctx.claim('value-as-written', m.get_value(a, b) == expected[(a, b)])
    ctx.claim('unknown-key-is-None', m.get_value('A', 'Z') is None and m.get_value('Z', 'A') is None)
    # wrong row length is rejected
    try:
        m.add(('D', 'I'))
        ctx.claim('short-row-rejected', False)
    except ValueError:
        ctx.claim('short-row-rejected', True)


def o_pairwise_matrix(ctx):
    """PairwiseMatrix.add / insert / get_value with symbolic cut-off values:
    symmetric; unspecified pairs give the declared default (whenever the
    default line comes, before or after the entries)"""
    from propka.parameters import PairwiseMatrix
    m = PairwiseMatrix('t')
    d0, d1 = ctx.real('default0', 0, 10), ctx.real('default1', 0, 10)
    where = ctx.choice('default_position', [0, 1, 2, None])
    pairs = list(itertools.combinations_with_replacement(KEYS, 2))
    entries = []
    for i in range(2):
        k1, k2 = ctx.choice('pair%d' % i, pairs)
        if ctx.choice('flip%d' % i, [False, True]):
            k1, k2 = k2, k1
        entries.append((k1, k2, ctx.real('e%d_0' % i, 0, 10), ctx.real('e%d_1' % i, 0, 10)))
    for i in range(3):
        if where == i:
            m.add(('default', d0, d1))
        if i < 2:
            m.add(entries[i])
    expected = {}
    for k1, k2, a, b in entries:
        expected[(k1, k2)] = expected[(k2, k1)] = (a, b)
    dflt = (d0, d1) if where is not None else (0.0, 0.0)
    for a in KEYS + ['Z']:
        for b in KEYS + ['Z']:
            v, w = m.get_value(a, b), m.get_value(b, a)
            ctx.claim('symmetric', And(eq(v[0], w[0]), eq(v[1], w[1])))
            e = expected.get((a, b), dflt)
            ctx.claim('entry-or-default', And(eq(v[0], e[0]), eq(v[1], e[1])))
    # a default declared again later (an override read after the first look-ups) applies to every unspecified pair, in both
    # orders -- whatever was looked up before
    if ctx.choice('default_redeclared_after_lookups', [False, True]):
        n0, n1 = ctx.real('new_default0', 0, 10), ctx.real('new_default1', 0, 10)
        m.add(('default', n0, n1))
        for a in KEYS + ['Z']:
            for b in KEYS + ['Z']:
                v, w = m.get_value(a, b), m.get_value(b, a)
                ctx.claim('symmetric(after redeclaration)', And(eq(v[0], w[0]), eq(v[1], w[1])))
                e = expected.get((a, b), (n0, n1))
                ctx.claim('entry-or-new-default', And(eq(v[0], e[0]), eq(v[1], e[1])))


def o_squared(ctx):
    """squared_property: x_squared == x**2 after any sequence of assignments to either form and
    reads of either form in between (a read must not freeze a value)"""
    from propka.parameters import Parameters
    import gc
    names = ['desolv_cutoff', 'buried_cutoff', 'coulomb_cutoff1', 'coulomb_cutoff2']
    n = ctx.choice('field', names)
    # optionally an earlier Parameters object that was used and discarded (its memory is typically
    # re-used by the next object of the same type): nothing of it may leak into the new one
    if ctx.choice('earlier_object', [False, True]):
        old = Parameters()
        setattr(old, n, ctx.real('earlier_value', 0, 100))
        getattr(old, n + '_squared')
        del old
        gc.collect()
    p = Parameters()
    seq = ctx.choice('sequence', [('plain',), ('squared',), ('plain', 'squared'), ('squared', 'plain'), ('squared', 'squared'),
                                  ('read', 'plain'), ('plain', 'read', 'plain'), ('squared', 'read', 'plain'), ('plain', 'read', 'squared', 'read', 'plain')])
    last = None
    k = 0
    for how in seq:
        if how == 'read':
            x, xs = getattr(p, n), getattr(p, n + '_squared')
            ctx.claim('consistent-at-every-read', eq(xs, x * x))
            continue
        v = ctx.real('v%d' % k, 0, 100)
        k += 1
        if how == 'plain':
            setattr(p, n, v)
            last = ('plain', v)
        else:
            setattr(p, n + '_squared', v)
            last = ('squared', v)
    x = getattr(p, n)
    xs = getattr(p, n + '_squared')
    ctx.claim('squared-is-square-of-plain', eq(xs, x * x))
    if last[0] == 'plain':
        ctx.claim('plain-reads-back', eq(x, last[1]))
    else:
        ctx.claim('squared-reads-back', And(eq(xs, last[1]), ge(x, 0)))
    for other in names:
        if other != n:
            ctx.claim('others-untouched', getattr(p, other) == getattr(Parameters(), other))
    # a second Parameters object is independent of the first
    q = Parameters()
    ctx.claim('fresh-object-has-defaults', getattr(q, n + '_squared') == getattr(q, n) ** 2 and getattr(q, n) == getattr(Parameters(), n))


def o_parse_line(ctx):
    """parse_line dispatch by declared field type (concrete lines, one per
    kind; order chosen symbolically)"""
    from propka.parameters import Parameters
    p = Parameters()
    lines = [
        'model_pkas XYZ 4.25  # comment',
        'acid_list XYZ',
        'version SomeVersion',
        'backbone_NH_hydrogen_bond XYZ -0.85 2.00 3.00',
        'protein_group_mapping XYZ-CA COO',
        'Nmin 123',
        'coulomb_cutoff2 11.5',
        'coulomb_cutoff1_squared 9.0',
        'remove_penalised_group 0',
        '   # only a comment',
        '',
        'sidechain_cutoffs default 3.0 4.0',
        'sidechain_cutoffs A B 1.0 2.0',
        'interaction_matrix A I',
        'interaction_matrix B N I',
    ]
    start = ctx.choice('rotation', [0, 5, 9])
    order = lines[start:12] + lines[:start] + lines[12:]
    for ln in order:
        p.parse_line(ln)
    ctx.claim('number-dict', p.model_pkas.get('XYZ') == 4.25)
    ctx.claim('string-list', p.acid_list == ['XYZ'])
    ctx.claim('string', p.version == 'SomeVersion')
    ctx.claim('list-dict', p.backbone_NH_hydrogen_bond.get('XYZ') == [-0.85, 2.0, 3.0])
    ctx.claim('string-dict', p.protein_group_mapping.get('XYZ-CA') == 'COO')
    ctx.claim('int', p.Nmin == 123 and isinstance(p.Nmin, int))
    ctx.claim('float', p.coulomb_cutoff2 == 11.5 and p.coulomb_cutoff2_squared == 11.5 ** 2)
    ctx.claim('squared-field', p.coulomb_cutoff1 == 3.0 and p.coulomb_cutoff1_squared == 9.0)
    ctx.claim('bool-as-int', p.remove_penalised_group == 0)
    ctx.claim('pairwise', p.sidechain_cutoffs.get_value('B', 'A') == (1.0, 2.0) and p.sidechain_cutoffs.get_value('A', 'C') == (3.0, 4.0))
    ctx.claim('matrix', p.interaction_matrix.get_value('A', 'B') == 'N' and p.interaction_matrix.get_value('B', 'A') == 'N')


# -- shipped file ------------------------------------------------------------------

def group_types_from_source():
    """every value assigned to self.type in propka/group.py (AST scan of the
    current source), with the class that assigns it"""
    src = open(os.path.join(H.REPO, 'propka', 'group.py')).read()
    tree = ast.parse(src)
    out = {}
    for cls in [n for n in tree.body if isinstance(n, ast.ClassDef)]:
        for node in ast.walk(cls):
            if isinstance(node, ast.Assign) and len(node.targets) == 1:
                t = node.targets[0]
                if (isinstance(t, ast.Attribute) and t.attr == 'type' and isinstance(t.value, ast.Name)
                        and t.value.id == 'self' and isinstance(node.value, ast.Constant) and node.value.value):
                    out.setdefault(node.value.value, []).append(cls.name)
    return out


def group_types_from_classification():
    """the type of every group the real classifier (group.is_group) produces on the ligand atom environments of C01 (SYBYL type x
    number and elements of heavy neighbours, incl. four heavy neighbours on an sp3 nitrogen): catches types that are computed
    rather than written out in the source"""
    import propka.group as G
    from .c01 import LIGAND_CASES
    p = H.params()
    out = {}
    for sy, nheavy, els, cls, pk, q in LIGAND_CASES:
        a = H.atom(sy[0] + '1', 'LIG', 7, 'A', 0.0, 0.0, 0.0, rec='hetatm', element=sy.split('.')[0])
        a.sybyl_type = sy
        a.sybyl_assigned = True
        a.is_protonated = True
        conf = H.conformation()
        conf.add_atom(a)
        for i, el in enumerate(els):
            b = H.atom(el + str(i + 2), 'LIG', 7, 'A', 1.4 * (i + 1), 0.0, 0.0, rec='hetatm', element=el)
            b.sybyl_type = el + '.3'
            conf.add_atom(b)
            a.bonded_atoms.append(b)
            b.bonded_atoms.append(a)
        g = G.is_group(p, a)
        if g is not None:
            out.setdefault(g.type, []).append('%s with %d heavy neighbours' % (sy, nheavy))
    return out


# types that never reach the pair loop of set_determinants with the shipped configuration, with the reason
EXCLUDED = {
    'ION': 'ions are handled by set_ion_determinants, never by the interaction matrix',
    'LG': 'marvin ligand typing only (ligand_typing is "groups")',
    'ALG': 'marvin ligand typing only', 'BLG': 'marvin ligand typing only',
    'BBN': 'backbone groups are filtered out by get_sidechain_groups', 'BBC': 'backbone groups are filtered out by get_sidechain_groups',
    'SER': 'no protein_group_mapping entry produces SERGroup',
}


def o_file_with_extra_cutoff_groups(ctx):
    """'for any parameter file': the shipped file plus side-chain cut-off lines for group names that have no interaction-matrix
    row (a new ligand type, another spelling), read through read_parameter_file: look-ups stay symmetric and give the
    declared values; pairs not named fall back to the default"""
    import os
    import tempfile
    import propka
    import propka.input as I
    from propka.parameters import Parameters
    cfg = open(os.path.join(os.path.dirname(propka.__file__), 'propka.cfg')).read()
    new = ctx.choice('new_group', ['BR', 'Cl', 'XYZ'])
    partner = ctx.choice('partner', ['COO', 'HIS', 'BR', 'LYS'])
    where = ctx.choice('position', ['end', 'start', 'before-the-matrix'])
    line = 'sidechain_cutoffs %s %s 2.20 3.20\n' % (new, partner)
    if where == 'end':
        text = cfg + ('' if cfg.endswith('\n') else '\n') + line
    elif where == 'start':
        text = line + cfg
    else:
        i = cfg.index('interaction_matrix')
        text = cfg[:i] + line + cfg[i:]
    # the file the user names by its full path is the file that is read: under a name of its own, or as an edited copy that
    # keeps the name of the shipped file (propka.cfg) in another directory.  (A relative name is looked up in the package
    # directory first -- that is how the default '-p propka.cfg' finds the shipped file -- so relative names are not claimed.)
    fname = ctx.choice('file_name', ['custom.cfg', 'propka.cfg'])
    d = tempfile.mkdtemp(prefix='c18f')
    path = os.path.join(d, fname)
    open(path, 'w').write(text)
    try:
        p = I.read_parameter_file(path, Parameters())
    finally:
        import shutil
        shutil.rmtree(d, ignore_errors=True)
    m = p.sidechain_cutoffs
    ctx.claim('declared-pair-as-written', list(m.get_value(new, partner)) == [2.2, 3.2] and list(m.get_value(partner, new)) == [2.2, 3.2],
              detail='(%s,%s) -> %r, (%s,%s) -> %r' % (new, partner, m.get_value(new, partner), partner, new, m.get_value(partner, new)))
    for other in ('COO', 'HIS', 'LYS', 'TYR', 'BR', 'XYZ'):
        ctx.claim('symmetric', list(m.get_value(new, other)) == list(m.get_value(other, new)), detail='(%s,%s) -> %r but (%s,%s) -> %r' % (new, other, m.get_value(new, other), other, new, m.get_value(other, new)))
    ref = H.params().sidechain_cutoffs
    for a_, b_ in (('COO', 'HIS'), ('ARG', 'COO'), ('SER', 'LYS')):
        if not (partner in (a_, b_) and new in (a_, b_)):
            ctx.claim('shipped-pairs-unchanged', list(m.get_value(a_, b_)) == list(ref.get_value(a_, b_)))


def o_shipped(ctx):
    p = H.params(fresh=True)
    types = group_types_from_source()
    # ... and the types the classifier actually hands out on the ligand environments (a type may be computed, not written out)
    produced = group_types_from_classification()
    ctx.notes['types produced by the classifier'] = sorted(produced)
    reach = sorted(t for t in set(types) | set(produced) if t not in EXCLUDED)
    ctx.notes['types'] = reach
    ctx.claim('ligand-typing-is-groups', p.ligand_typing == 'groups')
    mapped = set(p.protein_group_mapping.values())
    ctx.claim('no-SER-mapping', 'SER' not in mapped)
    for a in reach:
        for b in reach:
            v = p.interaction_matrix.get_value(a, b)
            ctx.claim('interaction-type-defined[%s]' % a, v in ('I', 'N', '-'),
                      detail='interaction_matrix.get_value(%r, %r) = %r' % (a, b, v))
            ctx.claim('interaction-symmetric', v == p.interaction_matrix.get_value(b, a))
            c = p.sidechain_cutoffs.get_value(a, b)
            ctx.claim('cutoffs-ordered', c[0] < c[1], detail='%s-%s %r' % (a, b, c))
            ctx.claim('cutoffs-symmetric', c == p.sidechain_cutoffs.get_value(b, a))
    d = p.sidechain_cutoffs.default
    ctx.claim('default-cutoffs-ordered', d[0] < d[1])
    ctx.claim('coulomb-cutoffs-ordered', p.coulomb_cutoff1 < p.coulomb_cutoff2)
    ctx.claim('desolvation-cutoffs-ordered', p.buried_cutoff < p.desolv_cutoff)
    for k, v in list(p.backbone_NH_hydrogen_bond.items()) + list(p.backbone_CO_hydrogen_bond.items()):
        ctx.claim('backbone-cutoffs-ordered', v[1] < v[2])
    # every written-out residue type that can titrate has a model pKa and its group type a non-zero charge
    import propka.group as G
    res_to_type = {}
    for key, cls in p.protein_group_mapping.items():
        res = key.split('-')[0]
        t = [k for k, v in types.items() if cls + 'Group' in v]
        res_to_type[res] = t[0] if t else None
    res_to_type.update({'N+': 'N+', 'C-': 'COO'})
    for rt in p.write_out_order:
        if rt in p.model_pkas:
            t = res_to_type.get(rt, rt)
            ctx.claim('written-type-has-charge[%s]' % rt, p.charge.get(t, 0) != 0 or p.charge.get(rt, 0) != 0,
                      detail='residue type %s (group type %s)' % (rt, t))
    for rt in ['ASP', 'GLU', 'HIS', 'CYS', 'TYR', 'LYS', 'ARG', 'N+', 'C-']:
        ctx.claim('standard-types-written-out', rt in p.write_out_order and rt in p.model_pkas)
    for rt, v in {'ASP': 3.8, 'GLU': 4.5, 'HIS': 6.5, 'CYS': 9.0, 'TYR': 10.0, 'LYS': 10.5, 'ARG': 12.5, 'N+': 8.0, 'C-': 3.2}.items():
        ctx.claim('tabulated-model-pka', p.model_pkas[rt] == v)
    for t in p.model_pkas:
        ctx.claim('titratable-types-written-out[%s]' % t, t in p.write_out_order, detail=t)


def obligations(tier):
    P = 'propka/parameters.py:'
    return [
        Obligation('O1-interaction-matrix-symmetry', o_interaction_matrix, code=[P + 'InteractionMatrix.add', P + 'InteractionMatrix.get_value'],
                   bounds='3 triangular rows, every entry chosen from {I, -, 1.5} (3^6 files)', max_paths=20000,
                   claim_doc='get_value(a,b) == get_value(b,a) == the entry written'),
        Obligation('O2-pairwise-matrix', o_pairwise_matrix, code=[P + 'PairwiseMatrix.add', P + 'PairwiseMatrix.insert', P + 'PairwiseMatrix.get_value'],
                   bounds='2 entries over key pairs of {A,B,C} in either key order, symbolic cut-offs, default line before/between/after/absent',
                   claim_doc='symmetric; unspecified pairs give the declared default', max_paths=20000),
        Obligation('O3-squared-property', o_squared, code=[P + 'squared_property.__get__', P + 'squared_property.__set__'],
                   bounds='4 fields, 9 sequences of assignments and reads (length <= 5), values in [0,100]',
                   claim_doc='x_squared == x^2 after any sequence of assignments to either form'),
        Obligation('O4-parse-line-dispatch', o_parse_line, code=[P + 'Parameters.parse_line', P + 'Parameters.parse_*'],
                   bounds='15 concrete lines (one per declared field kind), 3 orders', kind='table-check'),
        Obligation('O5-shipped-file', o_shipped, code=['propka/propka.cfg', 'propka/group.py (AST scan of self.type assignments)', 'propka/group.py:is_group (types produced on the ligand environments of C01)',
                                                      P + 'InteractionMatrix.get_value', P + 'PairwiseMatrix.get_value'],
                   bounds='exhaustive over the group types the current source can create and that reach set_determinants; '
                          'excluded with reason: %s' % '; '.join('%s (%s)' % kv for kv in sorted(EXCLUDED.items())),
                   claim_doc='interaction type in {I,N,-} for every pair; model pKa and non-zero charge for written-out types; inner < outer cut-offs',
                   kind='table-check', stop_on_violation=False),
        Obligation('O6-file-with-extra-cutoff-groups', o_file_with_extra_cutoff_groups, code=['propka/input.py:read_parameter_file', P + 'Parameters.parse_line', P + 'PairwiseMatrix.add', P + 'PairwiseMatrix.get_value'],
                   bounds='the shipped file plus one cut-off line for a group without a matrix row (3 names x 4 partners x 3 positions in the file; 36 concrete files), written under a name of its own or as propka.cfg in another directory and addressed by its full path', kind='table-check',
                   claim_doc='the declared pair reads as written in both orders; every look-up involving the new group is symmetric; shipped pairs unchanged'),
    ]


MANIFEST_ENTRY = {
    'level_note': ('O1-O3 are symbolic (choices over file contents, symbolic cut-off values); O4/O5 are finite table checks on concrete data '
                   '(exhaustive, labelled as such): the solver adds nothing to a concrete table, they are included because the property '
                   'is about the shipped file. Group types are extracted from the current group.py by AST scan on every run.'),
}
