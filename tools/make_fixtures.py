#!/usr/bin/env python3
"""cut micro-structures out of the repository's own test structures (inputs,
not oracles: no expected value is stored).  Run once; the result is committed
under /verif/fixtures so that the checks do not depend on the tests directory."""
import collections
import os
import sys

SRC = '/repo/tests/pdb'
OUT = os.path.join(os.path.dirname(os.path.dirname(os.path.abspath(__file__))), 'fixtures')


def residues(path, chain):
    res = collections.OrderedDict()
    for ln in open(path):
        if ln.startswith('ATOM') and ln[21] == chain and ln[16] in ' A':
            key = (int(ln[22:26]), ln[26])
            res.setdefault(key, []).append(ln[:16] + ' ' + ln[17:])
    return res


def cut(res, keys, name, ter=True):
    with open(os.path.join(OUT, name + '.pdb'), 'w') as fh:
        for k in keys:
            for ln in res[k]:
                if ln[12:16].strip().startswith('H'):
                    continue
                fh.write(ln[:80].rstrip() + '\n')
        if ter:
            fh.write('TER\n')


def main():
    r = residues(os.path.join(SRC, '1HPX.pdb'), 'A')
    keys = list(r)
    names = {k: r[k][0][17:20] for k in keys}
    done = set()
    for i in range(1, len(keys) - 1):
        t = names[keys[i]]
        if t in done:
            continue
        done.add(t)
        cut(r, keys[i - 1:i + 2], 'tri_' + t)
    # a longer peptide with several ionizable groups in contact
    cut(r, keys[24:32], 'pep8')
    # the ligand of 1HPX with the residues lining it is too big; take the ligand alone
    with open(os.path.join(OUT, 'lig_KNI.pdb'), 'w') as fh:
        for ln in open(os.path.join(SRC, '1HPX.pdb')):
            if ln.startswith('HETATM') and ln[17:20] == 'KNI':
                fh.write(ln[:80].rstrip() + '\n')
    # methotrexate from 4DFR (carboxylates, aromatic amines) - first copy only
    with open(os.path.join(OUT, 'lig_MTX.pdb'), 'w') as fh:
        for ln in open(os.path.join(SRC, '4DFR.pdb')):
            if ln.startswith('HETATM') and ln[17:20] == 'MTX' and ln[21] == 'A':
                fh.write(ln[:80].rstrip() + '\n')
    print(sorted(os.listdir(OUT)))


if __name__ == '__main__':
    main()
