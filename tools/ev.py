#!/usr/bin/env python3
import json, os, sys
ROOT = os.path.dirname(os.path.dirname(os.path.abspath(__file__)))
e=json.load(open(os.path.join(ROOT, 'evidence', '%s.json' % sys.argv[1])))
for o in e['coverage']['obligation_details']:
    print(o['obligation'], '|', o.get('result'), '| paths',o.get('paths'),'q',o.get('queries'),'solver',o.get('solver_s'),'wall',o['wall_s'], o.get('reasons'), o.get('path_outcomes'), (o.get('error') or '')[-600:])
for h in e['coverage']['harness_errors']: print('HE', h[:1500])
