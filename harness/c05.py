"""C05 -- parts of a structure beyond interaction range do not influence each
other (cut-off lemmas, closest-pair search, iterative cluster independence)."""
from symx import And, Or, Not, Implies, eq, le, ge, lt, ite
from symx.runner import Obligation
from . import common as H
from .c02 import mk_group, total, KINDS

PROPERTY = 'C05'
META = {'assumptions': []}

LO, HI = -999.999, 9999.999      # what fits in a PDB coordinate field


def o_desolvation_far_atom(ctx):
    """an atom >= 20 A from the group centre changes nothing in the group's
    desolvation / buried count (two runs on the same symbols)"""
    import propka.energy as E
    import propka.group as G
    # the burial thresholds are user settings: Nmin symbolic and small, so that the handful of atoms of this kernel straddles it
    # (the count of a group's neighbours must not depend on how many atoms the file holds in all)
    p = H.params(fresh=True)
    nmin = ctx.int('Nmin', 0, 6)
    p.Nmin, p.Nmax = nmin, nmin + 4

    def world(with_far):
        conf = H.conformation(p=p)
        ga = H.atom('CG', 'ASP', 10, 'A', 0.0, 0.0, 0.0)
        conf.add_atom(ga)
        grp = G.COOGroup(ga)
        grp.parameters = p
        grp.charge = -1
        H.set_xyz(grp, 0.0, 0.0, 0.0)
        conf.add_atom(H.atom('CB', 'LEU', 11, 'A', near[0], 1.0, 0.5))
        conf.add_atom(H.atom('N', 'LEU', 12, 'A', near[1], -2.0, 0.25))
        if with_far:
            conf.add_atom(H.atom(far_name, 'LEU', 13, 'A', fx, fy, fz, element=far_name[0]))
        E.radial_volume_desolvation(p, grp)
        return grp
    near = [ctx.real('n0', -25, 25), ctx.real('n1', -25, 25)]
    far_name = ctx.choice('far_element', ['CB', 'O', 'S'])
    fx, fy, fz = ctx.real('fx', -100, 100), ctx.real('fy', -100, 100), ctx.real('fz', -100, 100)
    ctx.assume(ge(fx * fx + fy * fy + fz * fz, 400.0))
    a = world(False)
    b = world(True)
    ctx.claim('energy_volume-unchanged', eq(a.energy_volume, b.energy_volume))
    ctx.claim('num_volume-unchanged', eq(a.num_volume, b.num_volume))
    ctx.claim('buried-unchanged', eq(a.buried, b.buried))


def o_pair_beyond_cutoff(ctx):
    """set_determinants on two side-chain groups whose centres are >= 10 A
    apart: no determinant, no iterative interaction, nothing raised"""
    import propka.determinants as D
    kinds = ctx.choice('types', [('COO', 'LYS'), ('COO', 'COO'), ('HIS', 'COO'), ('CYS', 'CYS'), ('TYR', 'ARG')])
    spec = {'COO': ('COOGroup', 'ASP', 'CG', -1), 'LYS': ('LYSGroup', 'LYS', 'NZ', 1), 'HIS': ('HISGroup', 'HIS', 'CG', 1),
            'CYS': ('CYSGroup', 'CYS', 'SG', -1), 'TYR': ('TYRGroup', 'TYR', 'OH', -1), 'ARG': ('ARGGroup', 'ARG', 'CZ', 1)}
    gs = []
    for i, k in enumerate(kinds):
        cls, rn, an, q = spec[k]
        g = mk_group(cls, rn, 10 + 10 * i, an, q=q)
        g.model_pka = H.params().model_pkas[rn]
        g.num_volume = 600
        gs.append(g)
    x, y, z = ctx.real('x', LO, HI), ctx.real('y', LO, HI), ctx.real('z', LO, HI)
    H.set_xyz(gs[0], 0.0, 0.0, 0.0)
    H.set_xyz(gs[1], x, y, z)
    H.set_xyz(gs[1].atom, x, y, z)
    gs[0].set_interaction_atoms([gs[0].atom], [gs[0].atom])
    gs[1].set_interaction_atoms([gs[1].atom], [gs[1].atom])
    ctx.assume(ge(x * x + y * y + z * z, 100.0))
    order = ctx.choice('order', [(0, 1), (1, 0)])
    D.set_determinants([gs[i] for i in order], H.version())
    for g in gs:
        ctx.claim('no-determinants', sum(len(g.determinants[k]) for k in KINDS) == 0)


def o_backbone_beyond_cutoff(ctx):
    """set_backbone_determinants: nearest interaction atoms >= 4.0 A apart
    (the largest configured backbone cut-off) -> no determinant"""
    import propka.determinants as D
    import propka.group as G
    p = H.params()
    ctx.claim('4.0-is-the-largest-backbone-cutoff',
              max(v[2] for v in list(p.backbone_NH_hydrogen_bond.values()) + list(p.backbone_CO_hydrogen_bond.values())) == 4.0)
    kind = ctx.choice('kind', ['BBN-COO', 'BBN-CYS', 'BBC-HIS'])
    bb_t, tt = kind.split('-')
    spec = {'COO': (G.COOGroup, 'ASP', 'CG', -1, 'OD1'), 'CYS': (G.CYSGroup, 'CYS', 'SG', -1, 'SG'), 'HIS': (G.HISGroup, 'HIS', 'CG', 1, 'NE2')}[tt]
    ta = H.atom(spec[2], spec[1], 10, 'A', 0.0, 0.0, 0.0)
    tg = spec[0](ta)
    tg.parameters = p
    tg.charge = spec[3]
    tg.titratable = True
    ia = H.atom(spec[4], spec[1], 10, 'A', 0.0, 0.0, 0.0)
    tg.set_interaction_atoms([ia], [ia])
    x, y, z = ctx.real('x', LO, HI), ctx.real('y', LO, HI), ctx.real('z', LO, HI)
    ctx.assume(ge(x * x + y * y + z * z, 16.0))
    if bb_t == 'BBN':
        n = H.atom('N', 'ALA', 20, 'A', x, y, z)
        bg = G.BBNGroup(n)
        bg.parameters = p
        bg.set_interaction_atoms([n], [n])
    else:
        c = H.atom('C', 'ALA', 20, 'A', x, y, z)
        o = H.atom('O', 'ALA', 20, 'A', x, y, z)
        bg = G.BBCGroup(c)
        bg.parameters = p
        bg.set_interaction_atoms([o], [o])
    D.set_backbone_determinants([tg], [bg], H.version())
    ctx.claim('no-backbone-determinant', len(tg.determinants['backbone']) == 0)


def o_backbone_other_groups_irrelevant(ctx):
    """the backbone determinants of a group do not depend on which other titratable groups are in the list --
    in particular not on a (far away, truncated) group that has no interaction atoms at all"""
    import propka.determinants as D
    import propka.group as G
    p = H.params()

    def world(extra):
        ta = H.atom('CG', 'ASP', 10, 'A', 0.0, 0.0, 0.0)
        tg = G.COOGroup(ta)
        tg.parameters, tg.charge, tg.titratable = p, -1, True
        ia = H.atom('OD1', 'ASP', 10, 'A', 0.0, 0.0, 0.0)
        tg.set_interaction_atoms([ia], [ia])
        n = H.atom('N', 'ALA', 20, 'A', x + 1.0, 0.0, 0.0)
        h = H.atom('H', 'ALA', 20, 'A', x, 0.0, 0.0, element='H')
        h.bonded_atoms, n.bonded_atoms = [n], [h]
        bg = G.BBNGroup(n)
        bg.parameters = p
        bg.set_interaction_atoms([h, n], [h, n])
        groups = [tg]
        if extra:
            fa = H.atom('CG', 'ASP', 900, 'X', 5000.0, 0.0, 0.0)
            fg = G.COOGroup(fa)
            fg.parameters, fg.charge, fg.titratable = p, -1, True
            if extra == 'no-interaction-atoms':
                fg.set_interaction_atoms([], [])
            else:
                fo = H.atom('OD1', 'ASP', 900, 'X', 5000.0, 1.0, 0.0)
                fg.set_interaction_atoms([fo], [fo])
            groups = [fg, tg] if position == 'before' else [tg, fg]
        D.set_backbone_determinants(groups, [bg], H.version())
        return tg
    x = ctx.real('x', 0.5, 6.0)
    position = ctx.choice('position_of_the_other_group', ['before', 'after'])
    kind = ctx.choice('other_group', ['no-interaction-atoms', 'complete'])
    alone = world(None)
    together = world(kind)
    da = [(d.label, d.value) for d in alone.determinants['backbone']]
    dt = [(d.label, d.value) for d in together.determinants['backbone']]
    ctx.claim('same-backbone-determinants-as-alone', len(da) == len(dt) and all(a[0] == b[0] and bool(eq(a[1], b[1])) for a, b in zip(da, dt)),
              detail='alone %r, with a %s group %s: %r' % (da, kind, position, dt))


def mk_smallest_distance(n1, n2, dims=3):
    def body(ctx):
        """get_smallest_distance returns the closest pair for every geometry
        that fits in the PDB coordinate field"""
        import propka.calculations as C
        def co(name, k):
            return ctx.real(name, LO, HI) if k < dims else 0.5 * k
        a1 = [H.atom('O%d' % i, 'ASP', 1, 'A', co('ax%d' % i, 0), co('ay%d' % i, 1), co('az%d' % i, 2))
              for i in range(n1)]
        a2 = [H.atom('N%d' % i, 'LYS', 2, 'A', co('bx%d' % i, 0), co('by%d' % i, 1), co('bz%d' % i, 2))
              for i in range(n2)]
        r1, d, r2 = C.get_smallest_distance(a1, a2)
        ctx.claim('finds-a-pair', r1 is not None and r2 is not None,
                  detail='returned %r, %r, %r' % (r1, d, r2))
        if r1 is None or r2 is None:
            return
        ctx.claim('atoms-from-the-right-lists', any(r1 is a for a in a1) and any(r2 is a for a in a2))
        ctx.claim('distance-of-returned-pair', eq(d * d, C.squared_distance(r1, r2)))
        for a in a1:
            for b in a2:
                ctx.claim('minimal', le(d * d, C.squared_distance(a, b)))
    return body


def o_hbond_beyond_cutoff(ctx):
    """hydrogen_bond_interaction / electrostatic_interaction: nothing beyond
    the outer cut-offs"""
    import propka.energy as E
    kinds = ctx.choice('types', [('COO', 'LYS'), ('COO', 'TYR'), ('CYS', 'LYS')])
    spec = {'COO': ('COOGroup', 'ASP', 'CG', -1), 'LYS': ('LYSGroup', 'LYS', 'NZ', 1),
            'CYS': ('CYSGroup', 'CYS', 'SG', -1), 'TYR': ('TYRGroup', 'TYR', 'OH', -1)}
    gs = []
    for i, k in enumerate(kinds):
        cls, rn, an, q = spec[k]
        g = mk_group(cls, rn, 10 + 10 * i, an, q=q)
        g.num_volume = ctx.count('nv%d' % i, 0, 2000)
        gs.append(g)
    x = ctx.real('x', 0, HI)
    H.set_xyz(gs[1].atom, x, 0.0, 0.0)
    for g in gs:
        g.set_interaction_atoms([g.atom], [g.atom])
    v = H.version()
    cut = v.parameters.sidechain_cutoffs.get_value(gs[0].type, gs[1].type)
    hb = E.hydrogen_bond_interaction(gs[0], gs[1], v)
    ctx.claim('no-hbond-beyond-outer-cutoff', Implies(ge(x, cut[1]), hb is None))
    el = E.electrostatic_interaction(gs[0], gs[1], x, v)
    ctx.claim('no-coulomb-beyond-cutoff2', Implies(lt(v.parameters.coulomb_cutoff2, x), el is None))
    if el is not None:
        ctx.claim('coulomb-zero-at-cutoff2', Implies(ge(x, v.parameters.coulomb_cutoff2), eq(el, 0)))


# -- iterative solver: clusters are independent --------------------------------------

def _cluster(ctx, tag, qs, resnum0, hetero=False):
    spec = {-1: ('COOGroup', 'ASP', 'CG'), 1: ('HISGroup', 'HIS', 'CG')}
    # hetero: ligand groups; their labels carry atom name and chain but not the residue
    # number, so two copies of one ligand in a chain have EQUAL labels (identity = label + number)
    hspec = {-1: ('OCOGroup', 'LIG', ['C1', 'C7']), 1: ('NARGroup', 'LIG', ['N1', 'N3'])}
    gs = []
    for i, q in enumerate(qs):
        if hetero:
            cls, rn, names = hspec[q]
            g = mk_group(cls, rn, resnum0, names[i % 2], q=float(q), rec='hetatm')
            g.model_pka = ctx.real('%s_pka%d' % (tag, i), 0, 14)
            gs.append(g)
            continue
        cls, rn, an = spec[q]
        g = mk_group(cls, rn, resnum0 + i, an, q=float(q))
        g.model_pka = ctx.real('%s_pka%d' % (tag, i), 0, 14)
        gs.append(g)
    return gs


def _clone_groups(gs, resnum_shift=0):
    out = []
    for g in gs:
        h = mk_group(type(g).__name__, g.atom.res_name.strip(), g.atom.res_num, g.atom.name, q=g.charge, rec=g.atom.type)
        h.model_pka = g.model_pka
        out.append(h)
    return out


def _dets(g):
    return [(k, d.label, d.value) for k in KINDS for d in g.determinants[k]]


def mk_iterative(qa, qb, hetero=False):
    def body(ctx):
        import propka.iterative as I
        v = H.version()
        A = _cluster(ctx, 'A', qa, 10, hetero)
        B = _cluster(ctx, 'B', qb, 50, hetero)
        if hetero:
            ctx.claim('copies-share-labels', [g.label for g in A] == [g.label for g in B] if qa == qb else True)
        ha, ca = ctx.real('A_hb', 0, 1.7), ctx.real('A_coul', 0, 2.1)
        hb_, cb = ctx.real('B_hb', 0, 1.7), ctx.real('B_coul', 0, 2.1)
        joint = [[[A[0], A[1]], [ha, ca], [0., 0.]], [[B[0], B[1]], [hb_, cb], [0., 0.]]]
        order = ctx.choice('order', [(0, 1), (1, 0)])
        I.add_determinants([joint[i] for i in order], v)
        A2 = _clone_groups(A)
        I.add_determinants([[[A2[0], A2[1]], [ha, ca], [0., 0.]]], v)
        for g, g2 in zip(A, A2):
            d1, d2 = _dets(g), _dets(g2)
            ctx.claim('same-number-of-determinants', len(d1) == len(d2), detail='joint %r alone %r' % (d1, d2))
            if len(d1) == len(d2):
                for (k1, l1, v1), (k2, l2, v2) in zip(d1, d2):
                    ctx.claim('same-determinant', And(k1 == k2 and l1 == l2, eq(v1, v2)))
    return body


def mk_iterative3(qa, qb, n_inter):
    """cluster A = 3 groups with 2 or 3 mutual interactions (needs more
    sweeps), cluster B = 2 groups"""
    def body(ctx):
        import propka.iterative as I
        v = H.version()
        A = _cluster(ctx, 'A', qa, 10)
        B = _cluster(ctx, 'B', qb, 50)
        pairs = [(0, 1), (1, 2), (0, 2)][:n_inter]
        vals = [(ctx.real('A_hb%d' % i, 0, 1.7), ctx.real('A_coul%d' % i, 0, 2.1)) for i in range(n_inter)]
        hb_, cb = ctx.real('B_hb', 0, 1.7), ctx.real('B_coul', 0, 2.1)
        joint = [[[A[i], A[j]], [h, c], [0., 0.]] for (i, j), (h, c) in zip(pairs, vals)]
        joint.append([[B[0], B[1]], [hb_, cb], [0., 0.]])
        I.add_determinants(joint, v)
        A2 = _clone_groups(A)
        I.add_determinants([[[A2[i], A2[j]], [h, c], [0., 0.]] for (i, j), (h, c) in zip(pairs, vals)], v)
        for g, g2 in zip(A, A2):
            d1, d2 = _dets(g), _dets(g2)
            ctx.claim('same-number-of-determinants', len(d1) == len(d2), detail='joint %r alone %r' % (d1, d2))
            if len(d1) == len(d2):
                for (k1, l1, v1), (k2, l2, v2) in zip(d1, d2):
                    ctx.claim('same-determinant', And(k1 == k2 and l1 == l2, eq(v1, v2)))
    return body


def mk_two_copies(name, lo, width=2.509):
    """a micro-structure and a copy of it (chain B) shifted by a symbolic
    D = k/1000 along x: every group of either copy gets the results of the
    single-copy run"""
    def body(ctx):
        from . import micro as M
        from .c04 import with_hydrogens_text
        # hydrogens are supplied (the program's own, keep-protons) so that the
        # separation can be a real number: all queries stay in QF_NRA in one variable
        txt = with_hydrogens_text(name)
        copy = ''.join((l[:21] + 'B' + l[22:] + '\n') if l.startswith('ATOM') else (l + '\n') for l in txt.split('\n') if l)
        # the statement needs 25 A between nearest atoms: shift = extent along x + the stated gap
        xs = [float(l[30:38]) for l in txt.split('\n') if l.startswith('ATOM')]
        ext = max(xs) - min(xs)
        D = ctx.real('separation', lo + ext, lo + ext + width)

        def tr(a):
            if a.chain_id == 'B':
                a.x = a.x + D
        base = _base_run(name)
        both = M.run(txt + copy, args=['--keep-protons'], transform=tr)
        gb = M.groups(base)
        g2 = M.groups(both)
        for (lab, typ), lst in gb.items():
            for chain in 'AB':
                lab2 = lab[:-1] + chain
                ctx.claim('group-present-in-both-copies', (lab2, typ) in g2 and len(g2[(lab2, typ)]) == len(lst), detail=lab2)
                if (lab2, typ) not in g2:
                    continue
                for a, b in zip(lst, g2[(lab2, typ)]):
                    ctx.claim('desolvation-as-alone', And(eq(a.energy_volume, b.energy_volume), eq(a.num_volume, b.num_volume), eq(a.buried, b.buried)), detail=lab2)
                    ctx.claim('pka-as-alone', eq(a.pka_value, b.pka_value), detail='%s: %r vs %r' % (lab2, a.pka_value, b.pka_value))
                    for kind in KINDS:
                        da = [(d.label[:-1], d.value) for d in a.determinants[kind]]
                        db = [(d.label[:-1], d.value) for d in b.determinants[kind]]
                        ctx.claim('determinants-as-alone', len(da) == len(db) and all(x[0] == y[0] and bool(eq(x[1], y[1])) for x, y in zip(da, db)),
                                  detail='%s %s: %r vs %r' % (lab2, kind, da, db))
    return body


def mk_coupling_probe_far_part(q1, q2, pat_i):
    """the coupling probe compares two folding energies of the WHOLE conformation (default and swapped state).  A far part adds
    a term that depends on the pH alone -- modelled as an arbitrary function of pH (fresh value per call, equal pH => equal value).
    The verdict (coupling factor) must be the same with and without that term, for every such function, every determinant
    pattern and every threshold: the far part has to cancel out of the difference."""
    def body(ctx):
        import propka.coupled_groups as CG
        from .c15 import PATTERNS, _fill
        from .c02 import mk_group as mkg
        vals = {}

        class Memo:
            """symbolic inputs shared by the two worlds"""
            native = ctx.native

            def real(self, name, lo, hi):
                if name not in vals:
                    vals[name] = ctx.real(name, lo, hi)
                return vals[name]
        memo = Memo()
        rof = ctx.choice('return_on_fail', [True, False])

        def world(with_far_part):
            p = H.params(fresh=True)
            nccg = CG.NonCovalentlyCoupledGroups()
            nccg.parameters = p
            g1 = mkg('COOGroup' if q1 < 0 else 'LYSGroup', 'ASP' if q1 < 0 else 'LYS', 10, 'CG' if q1 < 0 else 'NZ', q=q1, p=p)
            g2 = mkg('COOGroup' if q2 < 0 else 'HISGroup', 'GLU' if q2 < 0 else 'HIS', 20, 'CD' if q2 < 0 else 'CG', q=q2, p=p)
            g3 = mkg('TYRGroup', 'TYR', 30, 'OH', q=-1, p=p)
            bb = mkg('BBNGroup', 'ALA', 31, 'N', q=0, p=p)
            bb.titratable = False
            pat = PATTERNS[pat_i]
            _fill(memo, g1, 'g1', [g2, g3, bb], pat[0])
            _fill(memo, g2, 'g2', [g1, g3, bb], pat[1])
            p.min_interaction_energy = memo.real('min_interaction_energy', 0, 2)
            p.max_free_energy_diff = memo.real('max_free_energy_diff', 0.1, 3)
            p.min_swap_pka_shift = memo.real('min_swap_pka_shift', 0, 3)
            p.max_intrinsic_pka_diff = memo.real('max_intrinsic_pka_diff', 0.1, 5)
            ctx.claim('pH-of-the-shipped-configuration-is-variable', p.pH == 'variable')
            calls = []

            def energy(ph=None, reference=None):
                i = len(calls)
                near = memo.real('near_part_energy_%d' % i, -20, 20)
                far = memo.real('far_part_energy_%d' % i, -20, 20)
                for (ph0, far0) in calls:
                    ctx.assume(Implies(eq(ph0, ph), eq(far0, far)))       # the far part's energy is a function of pH
                calls.append((ph, far))
                return near + far if with_far_part else near
            data = nccg.is_coupled_protonation_state_probability(g1, g2, energy, return_on_fail=rof)
            return data, len(calls)
        d0, n0 = world(False)
        d1, n1 = world(True)
        ctx.claim('same-number-of-energy-evaluations', n0 == n1)
        ctx.claim('coupling-verdict-independent-of-the-far-part', eq(d0['coupling_factor'], d1['coupling_factor']),
                  detail='%r vs %r' % (d0.get('coupling_factor'), d1.get('coupling_factor')))
    return body


def mk_two_copies_text(name, at_origin=False, raw=False):
    """as O3, the far copy written into the PDB text itself (so that the coordinate columns are read, all 8 of them):
    offsets that make the fields 8 characters wide, along each axis"""
    def body(ctx):
        from . import micro as M
        from .c04 import with_hydrogens_text
        # raw: the fixture's own record layout (protein, TER, hetero block) with hydrogens built by the program; the parts are
        # concatenated as they are (no TER between the first part's hetero block and the second part's chain)
        txt = M.text(name) if raw else with_hydrogens_text(name)
        axis = ctx.choice('axis', [0, 1, 2])
        off = ctx.choice('offset', [1004.0, 2000.0, 5011.5, 9000.0, -960.0, 64.0])
        copy, first = [], []
        xyz = [[float(l[30:38]), float(l[38:46]), float(l[46:54])] for l in txt.split('\n') if l.startswith('ATOM')]
        cen = [round(sum(p[i] for p in xyz) / len(xyz), 3) if at_origin else 0.0 for i in range(3)]
        for l in txt.split('\n'):
            if l[:6] in ('ATOM  ', 'HETATM'):
                c = [float(l[30:38]) - cen[0], float(l[38:46]) - cen[1], float(l[46:54]) - cen[2]]
                first.append(l[:30] + '%8.3f%8.3f%8.3f' % tuple(c) + l[54:])
                c[axis] += off
                copy.append(l[:21] + 'B' + l[22:30] + '%8.3f%8.3f%8.3f' % tuple(c) + l[54:])
            elif l:
                copy.append(l)
                first.append(l)
        base = M.run(txt) if raw else _base_run(name)
        both = M.run('\n'.join(first) + '\n' + '\n'.join(copy) + '\n', args=[] if raw else ['--keep-protons'])
        gb = M.groups(base)
        g2 = M.groups(both)
        for (lab, typ), lst in gb.items():
            for chain in 'AB':
                lab2 = lab[:-1] + chain
                ctx.claim('group-present-in-both-copies', (lab2, typ) in g2 and len(g2[(lab2, typ)]) == len(lst), detail=lab2)
                if (lab2, typ) not in g2:
                    continue
                for a, b in zip(lst, g2[(lab2, typ)]):
                    ctx.claim('desolvation-as-alone', a.num_volume == b.num_volume and abs(a.energy_volume - b.energy_volume) < 1e-9 and abs(a.buried - b.buried) < 1e-9, detail=lab2)
                    ctx.claim('pka-as-alone', abs(a.pka_value - b.pka_value) < (0.0101 if raw else 1e-9), detail='%s: %r vs %r' % (lab2, a.pka_value, b.pka_value))
    return body


def mk_union_far_multiconformation(near, far, listed):
    """the part under study, with a titrate-only list naming its residues, together with a far-away part that has
    alternate locations (so that the file has several conformations and the near part is copied into them): the reported
    (averaged) values of the near part are those of the near part alone with the same list"""
    def body(ctx):
        from . import micro as M
        axis = ctx.choice('axis', [0, 1, 2])
        off = ctx.choice('offset', [64.0, 500.0, 2000.0])
        order = ctx.choice('file_order', ['near-first', 'far-first'])
        use_list = ctx.choice('titrate_only', [True, False])
        args = ['-i', listed] if use_list else []
        # the far part keeps its own residue numbers, or is numbered like the near part (other residue types at the same numbers)
        first_near = min(int(l[22:26]) for l in M.text(near).split('\n') if l.startswith('ATOM'))
        fsrc = M.text(far) if ctx.choice('far_part_numbering', ['own', 'as-the-near-part']) == 'own' else M.renumber_keep_altloc(M.text(far), first_near)
        fartxt = []
        for l in fsrc.split('\n'):
            if l[:6] in ('ATOM  ', 'HETATM'):
                c = [float(l[30:38]), float(l[38:46]), float(l[46:54])]
                c[axis] += off
                fartxt.append(l[:21] + 'B' + l[22:30] + '%8.3f%8.3f%8.3f' % tuple(c) + l[54:])
            elif l:
                fartxt.append(l)
        fartxt = '\n'.join(fartxt) + '\n'
        alone = M.run(M.text(near), args=args)
        both = M.run((M.text(near) + fartxt) if order == 'near-first' else (fartxt + M.text(near)), args=args)
        ctx.claim('several-conformations', len(both.conformation_names) >= 2)

        def rec(mol):
            return sorted((g.type, g.atom.name, g.atom.res_num, bool(g.titratable), round(g.pka_value, 6), round(g.energy_volume, 6), int(g.num_volume))
                          for g in mol.conformations['AVR'].groups if g.atom.chain_id == 'A')
        ctx.claim('near-part-as-alone', rec(both) == rec(alone), detail='%r vs %r' % (rec(both)[:3], rec(alone)[:3]))
    return body


_BASE = {}


def _base_run(name):
    from . import micro as M
    if name not in _BASE:
        from .c04 import with_hydrogens_text
        _BASE[name] = M.run(with_hydrogens_text(name), args=['--keep-protons'])
    return _BASE[name]


def obligations(tier):
    E = 'propka/energy.py:'
    D = 'propka/determinants.py:'
    obs = [
        Obligation('O1a-desolvation-far-atom', o_desolvation_far_atom, code=[E + 'radial_volume_desolvation'],
                   bounds='group + 2 near atoms (symbolic x in [-25,25]) + 1 atom (C4/O/S) anywhere in [-100,100]^3 with |r|^2 >= 400; parameters Nmin symbolic in [0,6], Nmax = Nmin + 4 (the atom count of the kernel straddles Nmin)',
                   claim_doc='energy_volume, num_volume, buried identical with and without the far atom', max_paths=3000),
        Obligation('O1b-pair-beyond-cutoff', o_pair_beyond_cutoff, code=[D + 'set_determinants', 'propka/calculations.py:distance'],
                   bounds='5 type pairs, second group anywhere in the PDB coordinate range with centre distance >= 10, both list orders',
                   claim_doc='no determinant of any kind'),
        Obligation('O1c-backbone-beyond-cutoff', o_backbone_beyond_cutoff,
                   code=[D + 'set_backbone_determinants', 'propka/calculations.py:get_smallest_distance'],
                   bounds='3 pairings; backbone atom anywhere in the PDB coordinate range at >= 4.0 A', claim_doc='no backbone determinant, no exception'),
        Obligation('O1e-backbone-other-groups-irrelevant', o_backbone_other_groups_irrelevant, code=[D + 'set_backbone_determinants'],
                   bounds='one ASP at symbolic distance x in [0.5,6] from a backbone NH; a second group 5000 A away (complete, or truncated to no interaction atoms), listed before or after',
                   claim_doc='the ASP gets the same backbone determinants as when it is alone'),
        Obligation('O1d-hbond-coulomb-cutoffs', o_hbond_beyond_cutoff,
                   code=[E + 'hydrogen_bond_interaction', E + 'electrostatic_interaction', E + 'check_coulomb_pair', E + 'coulomb_energy'],
                   bounds='3 type pairs, separation in [0, 9999.999], symbolic buried counts', claim_doc='None beyond the outer cut-offs'),
        Obligation('O4-smallest-distance-1x1', mk_smallest_distance(1, 1), code=['propka/calculations.py:get_smallest_distance'],
                   bounds='1x1 atoms anywhere in the PDB coordinate range [-999.999, 9999.999]^3',
                   claim_doc='a pair is always returned; it is the closest one'),
        Obligation('O4-smallest-distance-2x2', mk_smallest_distance(2, 2, dims=1), code=['propka/calculations.py:get_smallest_distance'],
                   bounds='2x2 atoms with symbolic x over the PDB coordinate range (y, z fixed)', claim_doc='as 1x1', max_paths=3000, wall_s=170),
    ]
    combos = [((-1, -1), (-1, 1)), ((-1, 1), (-1, -1)), ((1, 1), (-1, 1))]
    if tier == 'thorough':
        combos += [((-1, -1), (-1, -1)), ((-1, 1), (1, 1)), ((1, 1), (1, 1)), ((-1, 1), (-1, 1))]
    for qa, qb in combos:
        obs.append(Obligation('O2-iterative-clusters[A=%+d%+d,B=%+d%+d]' % (qa + qb), mk_iterative(qa, qb),
                              code=['propka/iterative.py:add_determinants', 'propka/iterative.py:add_iterative_acid_pair',
                                    'propka/iterative.py:add_iterative_base_pair', 'propka/iterative.py:add_iterative_ion_pair',
                                    'propka/iterative.py:find_iterative', 'propka/iterative.py:Iterative.__init__'],
                              bounds='two disjoint 2-group clusters (charges as named), one interaction each, all non-iterative pKas in [0,14], '
                                     'H-bond value in [0,1.7], Coulomb value in [0,2.1]; every number of sweeps the other cluster needs (<= 10)',
                              claim_doc='determinants of cluster A in the joint run == cluster A alone', max_paths=20000,
                              wall_s=170 if tier == 'quick' else 1200, query_timeout_ms=20000))
    seps = [25.0, 997.5] if tier == 'quick' else [25.0, 27.5, 100.0, 997.5, 1000.0, 5000.0, 9950.0]
    for name in (['tri_ASP'] if tier == 'quick' else ['tri_ASP', 'pair_GLU_ARG_TYR', 'pair_ASP_ARG', 'tri_HIS']):
        wins = [(lo, 0.8) for lo in seps]
        if tier == 'thorough':
            # the whole cell period 2.509 in three windows (one worker each); the larger structures at three separations only
            wins = [(lo + j * 0.8364, 0.8364) for lo in (seps if name.startswith('tri_') else [25.0, 997.5, 9950.0]) for j in range(3)]
        for lo, width in wins:
            obs.append(Obligation('O3-two-copies[%s,D>=%g]' % (name, lo), mk_two_copies(name, lo, width),
                                  code=['propka/run.py:single (whole pipeline)', 'propka/calculations.py:get_smallest_distance', D + 'set_backbone_determinants', E + 'radial_volume_desolvation'],
                                  bounds='%s (with the program\'s own hydrogens, keep-protons) plus a copy in chain B shifted along x so that the gap between nearest atoms is a real number in [%g, %g]' % (name, lo, lo + width),
                                  claim_doc='no exception; every group of either copy has the desolvation, pKa and determinants of the single-copy run',
                                  max_paths=5000, wall_s=170 if tier == 'quick' else 1500, shards=6 if tier == 'quick' else 1))
    for q1, q2 in ((-1, -1), (1, 1), (-1, 1)):
        for pat_i in ([0, 1] if tier == 'quick' else [0, 1, 2, 3]):
            obs.append(Obligation('O2-coupling-probe-far-part-cancels[%+d%+d,pattern %d]' % (q1, q2, pat_i), mk_coupling_probe_far_part(q1, q2, pat_i),
                                  code=['propka/coupled_groups.py:NonCovalentlyCoupledGroups.is_coupled_protonation_state_probability', 'propka/coupled_groups.py:NonCovalentlyCoupledGroups.swap_interactions',
                                        'propka/coupled_groups.py:NonCovalentlyCoupledGroups.get_free_energy_diff_factor'],
                                  bounds='two groups (charges %+d, %+d) with symbolic model pKa, desolvation and determinants (pattern %d of 4), the four coupling thresholds symbolic, pH "variable" as shipped; '
                                         'the folding energy handed to the probe = symbolic near-part value per call + an arbitrary function of pH for the far part' % (q1, q2, pat_i),
                                  shims=['energy_method -> symbolic near-part value per call (+ far-part value, a function of pH)'],
                                  claim_doc='the coupling factor is the same with and without the far-part term', max_paths=3000, wall_s=170 if tier == 'quick' else 900))
    for q in ((-1, -1), (-1, 1)):
        obs.append(Obligation('O2-iterative-clusters-two-ligand-copies[%+d%+d]' % q, mk_iterative(q, q, hetero=True), code=obs[-1].code if obs else [],
                              bounds='two copies of one ligand in one chain (same atom names, different residue numbers: equal labels), one interaction each, all values symbolic',
                              claim_doc='determinants of copy A in the joint run == copy A alone', max_paths=20000, wall_s=170, query_timeout_ms=20000))
    three = [((-1, -1, 1), (-1, 1), 2)] if tier == 'quick' else [((-1, -1, 1), (-1, 1), 2), ((-1, 1, 1), (-1, -1), 2), ((-1, -1, -1), (1, 1), 2), ((-1, -1, 1), (-1, 1), 3)]
    for qa, qb, ni in three:
        obs.append(Obligation('O2-iterative-clusters-3+2[A=%s,B=%s,%d interactions]' % (''.join('%+d' % q for q in qa), ''.join('%+d' % q for q in qb), ni),
                              mk_iterative3(qa, qb, ni), code=obs[-1].code,
                              bounds='cluster A: 3 groups with %d interactions, cluster B: 2 groups with 1; all values symbolic as above' % ni,
                              claim_doc='determinants of cluster A in the joint run == cluster A alone', max_paths=50000,
                              wall_s=170 if tier == 'quick' else 1500, query_timeout_ms=20000, shards=16))
    obs.append(Obligation('O5-coordinate-fields-read-in-full', H.o_coordinate_fields, code=['propka/atom.py:Atom.set_properties'],
                          bounds='one ATOM record, one coordinate field with 4 leading characters and 3 decimals symbolic: every %8.3f rendering from -999.999 to 9999.999',
                          claim_doc='a part placed 1000 A or more away is read where it is written (not folded back next to the other part)', max_paths=2000))
    for name in (['pair_ASP_ARG'] if tier == 'quick' else ['pair_ASP_ARG', 'pep8', 'pair_GLU_ARG_TYR', 'tri_ASP']):
        obs.append(Obligation('O3-two-copies-in-the-text[%s]' % name, mk_two_copies_text(name), code=['propka/atom.py:Atom.set_properties', 'propka/run.py:single (whole pipeline)'],
                              bounds='%s and a copy (chain B) written into the text 64, -960, 1004, 2000, 5011.5 or 9000 A away along x, y or z (18 concrete files)' % name, kind='table-check',
                              claim_doc='each copy gets the desolvation and pKa of the structure alone', max_paths=200))
    for name in (['complex_ZN'] if tier == 'quick' else ['complex_ZN', 'complex_MTX']):
        obs.append(Obligation('O3-two-copies-in-the-text[%s,records as in the file]' % name, mk_two_copies_text(name, raw=True), code=['propka/input.py:get_atom_lines_from_pdb', 'propka/run.py:single (whole pipeline)'],
                              bounds='%s (protein, TER, hetero block) followed directly by a copy (chain B) 64 ... 9000 A away along x, y or z (18 concrete files, hydrogens built by the program)' % name, kind='table-check',
                              claim_doc='each copy has the groups (incl. its N-terminus), the desolvation and, within 0.01, the pKa of the structure alone', max_paths=200))
    for near, far, listed in ([('tri_ASP', 'tri_SER|BC@37', 'A:25')] if tier == 'quick' else [('tri_ASP', 'tri_SER|BC@37', 'A:25'), ('pair_GLU_ARG_TYR', 'tri_SER|BC@37', 'A:35,A:57'), ('pep8', 'tri_SER|BC@37', 'A:29,A:30')]):
        obs.append(Obligation('O3-far-part-with-alternate-locations[%s]' % near, mk_union_far_multiconformation(near, far, listed), code=['propka/atom.py:Atom.make_copy', 'propka/molecular_container.py:MolecularContainer.top_up_conformations',
                                                                                                                                    'propka/conformation_container.py:ConformationContainer.init_group', 'propka/run.py:single (whole pipeline)'],
                              bounds='%s plus a far part (chain B, 64 / 500 / 2000 A away along x, y or z) with alternate locations B and C; both file orders; far part numbered on its own or like the near part; with and without -i %s (72 concrete files)' % (near, listed), kind='table-check',
                              claim_doc='the averaged records of the near part equal those of the near part alone', max_paths=200))
    # an incompletely modelled residue in each part, the first part sitting at the coordinate origin (a point that does not move with a part)
    for name in (['tri_ASP~-OD1-OD2@25'] if tier == 'quick' else ['tri_ASP~-OD1-OD2@25', 'tri_GLU~-OE1-OE2@21', 'tri_ASP~-OD2@25', 'pep8~-OD1-OD2@29']):
        obs.append(Obligation('O3-two-copies-in-the-text[%s,first at the origin]' % name, mk_two_copies_text(name, at_origin=True), code=['propka/group.py:*Group.setup_atoms', 'propka/group.py:Group.set_center', 'propka/run.py:single (whole pipeline)'],
                              bounds='%s (atoms after ~ removed) centred at the origin and a copy (chain B) 64 ... 9000 A away along x, y or z (18 concrete files); reference: the structure alone where it is in the file' % name, kind='table-check',
                              claim_doc='each copy gets the desolvation and pKa of the structure alone', max_paths=200))
    return obs


MANIFEST_ENTRY = {
    'level_note': ('Cut-off lemmas with one symbolic far atom/group each, over the whole PDB coordinate range; closest-pair search over the whole '
                   'range; iterative solver: two disjoint 2-group clusters with all values symbolic, joint run compared with the cluster alone '
                   '(covers every number of extra sweeps up to the cap of 10). O3: whole pipeline on a micro-structure plus a copy at symbolic separation (25 A, ~1000 A quick; up to 9950 A thorough). Larger clusters and more than two clusters are outside the bound.'
                   ' O3 also with the far copy written into the text (coordinate columns read) and with truncated residues, first part at the origin; O5 coordinate fields as C04-O3.'),
}
